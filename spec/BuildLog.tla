------------------------------ MODULE BuildLog ------------------------------
(***************************************************************************)
(* C08, design level: the writer (one flushed line per output), crashes     *)
(* that leave any prefix of the file, sessions that append behind a torn    *)
(* tail, reloads.  TLC explores every sequence of operations over a small   *)
(* alphabet and checks in every state that what the loader makes of the     *)
(* bytes on disk satisfies the property-level clauses of BuildLogRef        *)
(* (Safe, Complete, and Exact while no line was appended behind a tear).    *)
(* Numbers that end up next to each other in merged lines use disjoint      *)
(* digit alphabets for times/mtimes and hashes so that the tiny hashes of   *)
(* the model cannot collide by concatenation (64-bit hashes in reality).    *)
(***************************************************************************)
EXTENDS BuildLogRef, Json, IOUtils, Randomization

CONSTANTS MaxOps
Outs == {<<97>>, <<98>>}                      \* "a", "b"
Hashes == {<<97, 98>>, <<99, 100>>}           \* "ab", "cd"
Mtimes == {5, 6}

VARIABLES exists, file, gh, nops
vars == <<exists, file, gh, nops>>

Init == exists = FALSE /\ file = <<>> /\ gh = Ghost0 /\ nops = 0

\* a session opens the log: creates it with a header when missing or empty,
\* removes and recreates it when the version line is unusable
OpenFile(ex, b) == IF ~ex \/ b = <<>> \/ Loaded(ex, b).removed THEN Header ELSE b

Rec(outs, m, h) ==
  /\ nops < MaxOps
  /\ LET b0 == OpenFile(exists, file)
         gh0 == IF exists /\ file # <<>> /\ Loaded(exists, file).removed THEN [gh EXCEPT !.recs = <<>>] ELSE gh
         rs == [k \in 1..Len(outs) |-> [o |-> outs[k], m |-> m, h |-> h, s |-> 7, t |-> 8]]
         RECURSIVE Cat(_)
         Cat(k) == IF k > Len(rs) THEN <<>> ELSE Render(rs[k]) \o Cat(k + 1)
         \* a file that ends inside a line (torn write) gets a line end first, so that the torn line cannot swallow the record
         b1 == IF DirtyTail(TRUE, b0) THEN b0 \o <<NL>> ELSE b0
     IN /\ file' = b1 \o Cat(1)
        /\ gh' = GhostAppend(gh0, rs, 1, Len(b1), DirtyTail(TRUE, b0))
  /\ exists' = TRUE /\ nops' = nops + 1

\* the process dies; any prefix of the file survives
Tear(n) ==
  /\ nops < MaxOps /\ exists /\ n < Len(file)
  /\ file' = SubSeq(file, 1, n)
  /\ gh' = GhostTear(gh, n)
  /\ UNCHANGED exists /\ nops' = nops + 1

Next == \/ \E o \in Outs, m \in Mtimes, h \in Hashes : Rec(<<o>>, m, h)
        \/ \E m \in Mtimes, h \in Hashes : Rec(<<<<97>>, <<98>>>>, m, h)
        \/ \E n \in 0..Len(file) : Tear(n)
Spec == Init /\ [][Next]_vars

Tab == Loaded(exists, file).tab
GhostNow == IF exists /\ file # <<>> /\ Loaded(exists, file).removed THEN [gh EXCEPT !.recs = [k \in DOMAIN gh.recs |-> [gh.recs[k] EXCEPT !.alive = FALSE]]] ELSE gh
SafeInv == Safe(Tab, GhostNow)
CompleteInv == Complete(Tab, GhostNow)
ExactInv == ~gh.merged => Exact(Tab, GhostNow)

(***************************************************************************)
(* Operation sequences for the real BuildLog (harness/logh.cc), exported    *)
(* by TLC: the same alphabet, concrete command texts instead of hashes.     *)
(***************************************************************************)
RecOps == {[op |-> "rec", outs |-> o, cmd |-> c, m |-> m, s |-> 7, t |-> 8] :
             o \in {<<"a">>, <<"b">>, <<"a", "b">>}, c \in {"c1", "c2"}, m \in Mtimes}
RecA == {r \in RecOps : r.outs = <<"a">>}
TearOp(c) == [op |-> "tear", cut |-> c]
Reopen == [op |-> "reopen"]
PickS(k, S) == IF Cardinality(S) <= k THEN S ELSE RandomSubset(k, S)
SeqFamily(name, K) ==
  CASE name = "tear1" -> {<<r1, r2, TearOp(c), r3, Reopen>> : r1 \in RecA, r2 \in PickS(K, RecOps), r3 \in PickS(K, RecOps), c \in 1..46}
    [] name = "tear2" -> {<<r1, TearOp(c1), r2, TearOp(c2), r3, Reopen>> :
                            r1 \in PickS(2, RecOps), r2 \in PickS(K, RecOps), r3 \in PickS(2, RecOps), c1 \in 1..24, c2 \in 1..24}
    [] name = "maint" -> {<<r1, r2, TearOp(c), r3, [op |-> "recompact", dead |-> d], r4,
                             [op |-> "restat", outs |-> ro, mt |-> <<[o |-> "a", m |-> 9], [o |-> "b", m |-> 4]>>], Reopen>> :
                            r1 \in PickS(2, RecOps), r2 \in PickS(K, RecOps), r3 \in PickS(2, RecOps), r4 \in PickS(2, RecOps),
                            c \in {0, 1, 2, 17, 18, 19, 25, 30}, d \in {<<>>, <<"a">>}, ro \in {<<>>, <<"b">>}}
    [] name = "version" -> {<<r1, [op |-> "version", v |-> v], r2, Reopen>> : r1 \in PickS(K, RecOps), r2 \in PickS(K, RecOps), v \in {5, 6, 8, 70}}
ExpName == IF "SEQ" \in DOMAIN IOEnv THEN IOEnv.SEQ ELSE ""
ExpK == IF "K" \in DOMAIN IOEnv THEN atoi(IOEnv.K) ELSE 3
ASSUME ExpName = "" \/ ndJsonSerialize(IOEnv.OUT, SetToSeq({[ops |-> q] : q \in SeqFamily(ExpName, ExpK)}))
StopNext == FALSE /\ UNCHANGED vars
=============================================================================
