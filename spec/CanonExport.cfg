SPECIFICATION Spec
CONSTANT MaxLen = 0
CHECK_DEADLOCK FALSE
