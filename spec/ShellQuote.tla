----------------------------- MODULE ShellQuote -----------------------------
(***************************************************************************)
(* C16.  Reference quoting of file names for $in / $out / $in_newline and   *)
(* a model of how /bin/sh forms words from the quoting fragment (unquoted   *)
(* safe characters, single-quoted strings, backslash-escaped characters).   *)
(*                                                                          *)
(* Theorem checked by TLC in every state (one state per name / name list):  *)
(*     ShWords(JoinQ(names, sep)) = names                                   *)
(* i.e. the substituted text is read back as exactly the names, one word    *)
(* each; and names made of safe characters only are passed verbatim.        *)
(* The model of sh is itself bound to the real /bin/sh by the check         *)
(* (lib/checks.py C16): the expected texts are executed through sh -c with  *)
(* a helper that prints its argv.                                           *)
(***************************************************************************)
EXTENDS Naturals, Sequences, SequencesExt, FiniteSets, TLC, Json, IOUtils

SQ == 39    \* '
BS == 92    \* backslash
SP == 32
NL == 10
TAB == 9

Safe(c) == \/ c \in 65..90 \/ c \in 97..122 \/ c \in 48..57
           \/ c \in {95, 43, 45, 46, 47}          \* _ + - . /
AllSafe(n) == \A i \in DOMAIN n : Safe(n[i])

RECURSIVE Esc(_, _)
Esc(n, i) == IF i > Len(n) THEN <<>>
             ELSE (IF n[i] = SQ THEN <<SQ, BS, SQ, SQ>> ELSE <<n[i]>>) \o Esc(n, i + 1)
Quote(n) == IF AllSafe(n) THEN n ELSE <<SQ>> \o Esc(n, 1) \o <<SQ>>

RECURSIVE JoinQ(_, _, _)
JoinQ(names, sep, i) == IF i > Len(names) THEN <<>>
                        ELSE IF i = Len(names) THEN Quote(names[i])
                        ELSE Quote(names[i]) \o <<sep>> \o JoinQ(names, sep, i + 1)

(***************************************************************************)
(* sh word formation (POSIX 2.2, 2.6.5) for the fragment.  State machine    *)
(* over the text: mode "out" (between words), "word" (inside an unquoted    *)
(* part of a word), "sq" (inside single quotes).  Any unquoted character    *)
(* that sh would treat specially (expansion, operator, glob, comment)       *)
(* makes the text "unsupported": the theorem then fails, as it should.      *)
(***************************************************************************)
Blank(c) == c \in {SP, TAB, NL}
\* characters that are ordinary when they appear unquoted in a word
Plain(c) == Safe(c) \/ c \in {44, 58, 61, 64, 37, 94}   \* , : = @ % ^  (never produced unquoted by Quote)

RECURSIVE Sh(_, _, _, _, _)
\* t text, i position, mode, cur current word, acc finished words
Sh(t, i, mode, cur, acc) ==
  IF i > Len(t)
  THEN IF mode = "sq" THEN <<"unterminated">>
       ELSE IF mode = "word" THEN Append(acc, cur) ELSE acc
  ELSE LET c == t[i] IN
       CASE mode = "sq" ->
              IF c = SQ THEN Sh(t, i + 1, "word", cur, acc) ELSE Sh(t, i + 1, "sq", Append(cur, c), acc)
         [] mode \in {"out", "word"} ->
              IF Blank(c) THEN (IF mode = "word" THEN Sh(t, i + 1, "out", <<>>, Append(acc, cur)) ELSE Sh(t, i + 1, "out", <<>>, acc))
              ELSE IF c = SQ THEN Sh(t, i + 1, "sq", cur, acc)
              ELSE IF c = BS THEN (IF i + 1 > Len(t) THEN <<"trailing backslash">>
                                   ELSE IF t[i + 1] = NL THEN Sh(t, i + 2, mode, cur, acc)
                                   ELSE Sh(t, i + 2, "word", Append(cur, t[i + 1]), acc))
              ELSE IF Plain(c) THEN Sh(t, i + 1, "word", Append(cur, c), acc)
              ELSE <<"unsupported unquoted character">>
ShWords(t) == Sh(t, 1, "out", <<>>, <<>>)

RoundTrip(names, sep) == ShWords(JoinQ(names, sep, 1)) = names
Verbatim(n) == AllSafe(n) => Quote(n) = n

(***************************************************************************)
(* Exploration.  Phase "name": every name of up to two bytes over 1..255    *)
(* without newline and every three-byte name over the shell-special         *)
(* alphabet.  Phase "list": every list of up to three names drawn from a    *)
(* small set of hostile names, with ' ' and newline as separators.          *)
(***************************************************************************)
Bytes == (1..255) \ {NL}
Special == {SP, SQ, 34, BS, 36, 96, 42, 59, 38, 124, 60, 62, 40, 41, 35, 126, 33, 63, 91, TAB, 97, 45, 61, 37}
ListNames == {<<SP>>, <<SQ>>, <<BS>>, <<36, 97>>, <<97>>, <<42>>, <<SQ, SQ>>, <<BS, SQ>>, <<97, SP, 98>>, <<59>>, <<45, 97>>, <<35>>}

VARIABLES name, lst
vars == <<name, lst>>
Init == name = <<>> /\ lst = <<>>
GrowName == /\ lst = <<>>
            /\ \/ Len(name) < 2 /\ \E b \in Bytes : name' = Append(name, b)
               \/ Len(name) = 2 /\ ToSet(name) \subseteq Special /\ \E b \in Special : name' = Append(name, b)
            /\ UNCHANGED lst
GrowList == /\ name = <<>> /\ Len(lst) < 3
            /\ \E n \in ListNames : lst' = Append(lst, n)
            /\ UNCHANGED name
Next == GrowName \/ GrowList
Spec == Init /\ [][Next]_vars
StopNext == FALSE /\ UNCHANGED vars

NameOK == name # <<>> => (RoundTrip(<<name>>, SP) /\ Verbatim(name))
ListOK == lst # <<>> => (RoundTrip(lst, SP) /\ \A i \in DOMAIN lst : RoundTrip(<<lst[i]>>, SP))
\* $in_newline: each line is read as one word
LinesOK == lst # <<>> => \A i \in DOMAIN lst : ShWords(Quote(lst[i])) = <<lst[i]>>

(***************************************************************************)
(* Export of implementation tests: name lists with the expected $in text.   *)
(***************************************************************************)
Names1 == {<<b>> : b \in Bytes}
Names2 == {<<a, b>> : a \in Bytes, b \in Bytes}
Names3 == {<<a, b, c>> : a \in Special, b \in Special, c \in Special}
Lists == {<<a>> : a \in ListNames} \cup {<<a, b>> : a \in ListNames, b \in ListNames}
         \cup {<<a, b, c>> : a \in ListNames, b \in ListNames, c \in ListNames}
ExportSet(which) ==
  CASE which = "1" -> {<<n>> : n \in Names1}
    [] which = "2" -> {<<n>> : n \in Names2}
    [] which = "3" -> {<<n>> : n \in Names3}
    [] which = "L" -> Lists
Which == IF "WHICH" \in DOMAIN IOEnv THEN IOEnv.WHICH ELSE ""
ASSUME Which = "" \/ ndJsonSerialize(IOEnv.OUT,
          SetToSeq({[names |-> ns, sp |-> JoinQ(ns, SP, 1), nl |-> JoinQ(ns, NL, 1)] : ns \in ExportSet(Which)}))
=============================================================================
