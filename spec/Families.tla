----------------------------- MODULE Families -----------------------------
(***************************************************************************)
(* Scenario families: graph x initial tree x history script x config.       *)
(* The same sets are serialised by TLC for the harnesses (ASSUME at the      *)
(* end: FAM selects the family, OUT the file) and are the initial states of  *)
(* the design-level model-checking runs (NinjaImpl).                         *)
(*                                                                           *)
(* A graph is a sequence of statements; statement i produces "o<i>" (and     *)
(* "p<i>" for two-output profiles) from sources "s1","s2" and earlier        *)
(* outputs, so every generated graph is acyclic (the cyclic family FamCyc    *)
(* adds back edges explicitly).                                              *)
(***************************************************************************)
EXTENDS Naturals, Sequences, FiniteSets, TLC, Json, IOUtils, SequencesExt, FiniteSetsExt, Randomization

O(i) == "o" \o ToString(i)
P(i) == "p" \o ToString(i)

Stmt0 == [id |-> 0, outs |-> <<>>, iouts |-> <<>>, ex |-> <<>>, im |-> <<>>, oo |-> <<>>, val |-> <<>>,
          hdrs |-> <<>>, phony |-> FALSE, restat |-> FALSE, gen |-> FALSE, rsp |-> FALSE, deps |-> "",
          pool |-> "", dd |-> "", ddi |-> <<>>, ddo |-> <<>>, ddr |-> FALSE, mkdd |-> "", badrspdir |-> FALSE]

\* skeleton statement: inputs by kind
Sk(ex, im, oo, val, phony) == [ex |-> ex, im |-> im, oo |-> oo, val |-> val, phony |-> phony]
C(ex) == Sk(ex, <<>>, <<>>, <<>>, FALSE)

(***************************************************************************)
(* Shape library.                                                           *)
(***************************************************************************)
Shapes == [
  single   |-> << C(<<"s1">>) >>,
  chain2   |-> << C(<<"s1">>), C(<<"o1">>) >>,
  chain3   |-> << C(<<"s1">>), C(<<"o1">>), C(<<"o2">>) >>,
  diamond  |-> << C(<<"s1">>), C(<<"o1">>), C(<<"o1", "s2">>), C(<<"o2", "o3">>) >>,
  fanin    |-> << C(<<"s1">>), C(<<"s2">>), C(<<"o1", "o2">>) >>,
  fanout   |-> << C(<<"s1">>), C(<<"o1">>), C(<<"o1", "s2">>) >>,
  implicit |-> << C(<<"s1">>), Sk(<<"s2">>, <<"o1">>, <<>>, <<>>, FALSE) >>,
  oonly    |-> << C(<<"s1">>), Sk(<<"s2">>, <<>>, <<"o1">>, <<>>, FALSE) >>,
  mixed    |-> << C(<<"s1">>), Sk(<<"o1">>, <<"s2">>, <<>>, <<>>, FALSE), Sk(<<"s2">>, <<>>, <<"o2">>, <<>>, FALSE) >>,
  indep    |-> << C(<<"s1">>), C(<<"s2">>) >>,
  alias    |-> << C(<<"s1">>), Sk(<<"o1">>, <<>>, <<>>, <<>>, TRUE), C(<<"o2">>) >>,
  group    |-> << C(<<"s1">>), C(<<"s2">>), Sk(<<"o1", "o2">>, <<>>, <<>>, <<>>, TRUE), Sk(<<"s1">>, <<"o3">>, <<>>, <<>>, FALSE) >>,
  aliasoo  |-> << C(<<"s1">>), Sk(<<>>, <<>>, <<"o1">>, <<>>, TRUE), Sk(<<"s2">>, <<>>, <<"o2">>, <<>>, FALSE) >>,
  \* a phony alias with an order-only input, consumed as a regular input (the alias forwards no time from it)
  aliasooim |-> << C(<<"s1">>), Sk(<<>>, <<>>, <<"o1">>, <<>>, TRUE), Sk(<<"s2">>, <<"o2">>, <<>>, <<>>, FALSE) >>,
  aliasooex |-> << C(<<"s1">>), Sk(<<"s2">>, <<>>, <<"o1">>, <<>>, TRUE), C(<<"o2">>) >>,
  \* statements that need not run themselves but carry order-only constraints: an alias of two generated files used
  \* order-only, and an intermediate (clean or restat-pruned) with an order-only input that takes long
  aliasoo2 |-> << C(<<"s1">>), C(<<"s2">>), Sk(<<>>, <<>>, <<"o1", "o2">>, <<>>, TRUE), Sk(<<"s1">>, <<>>, <<"o3">>, <<>>, FALSE) >>,
  midoo    |-> << C(<<"s1">>), C(<<"s2">>), Sk(<<"o1">>, <<>>, <<"o2">>, <<>>, FALSE), C(<<"o3">>) >>,
  valid    |-> << C(<<"s1">>), Sk(<<"s2">>, <<>>, <<>>, <<"o1">>, FALSE) >>,
  validrev |-> << Sk(<<"s1">>, <<>>, <<>>, <<"o2">>, FALSE), C(<<"o1">>) >>,
  validch  |-> << C(<<"s1">>), Sk(<<"o1">>, <<>>, <<>>, <<"o3">>, FALSE), C(<<"s2">>) >>,
  wide4    |-> << C(<<"s1">>), C(<<"s1">>), C(<<"s2">>), C(<<"s2">>) >>,
  widejoin |-> << C(<<"s1">>), C(<<"s1">>), C(<<"s2">>), C(<<"o1", "o2", "o3">>) >>,
  widephony |-> << C(<<"s1">>), C(<<"s2">>), Sk(<<"o1", "o2">>, <<>>, <<>>, <<>>, TRUE), C(<<"o3">>), C(<<"s1">>) >>
]
ShapeNames == DOMAIN Shapes

(***************************************************************************)
(* Feature profiles of a command statement.                                 *)
(***************************************************************************)
Profiles == {"plain", "restat", "gen", "two", "iout", "rsp", "depfile", "gcc", "msvc", "gccgen", "restatgcc"}

\* i: statement index; sk: skeleton; pr: profile; prev: the statement built before it
Mk(i, sk, pr) ==
  LET base == [Stmt0 EXCEPT !.id = i, !.outs = <<O(i)>>, !.ex = sk.ex, !.im = sk.im, !.oo = sk.oo,
                            !.val = sk.val, !.phony = sk.phony]
      ins == ToSet(sk.ex) \cup ToSet(sk.im) \cup ToSet(sk.oo)
      \* a header that is a source the statement does not already declare
      hsrc == IF "s2" \notin ins THEN "s2" ELSE IF "s1" \notin ins THEN "s1" ELSE "h"
  IN IF sk.phony THEN base
     ELSE CASE pr = "plain"   -> base
            [] pr = "restat"  -> [base EXCEPT !.restat = TRUE]
            [] pr = "gen"     -> [base EXCEPT !.gen = TRUE]
            \* the generator flag set on the build statement, or set on the rule and cleared on the statement
            [] pr = "genb"    -> [genlvl |-> "build"] @@ [base EXCEPT !.gen = TRUE]
            [] pr = "genc"    -> [genlvl |-> "cleared"] @@ base
            [] pr = "two"     -> [base EXCEPT !.outs = <<O(i), P(i)>>]
            [] pr = "iout"    -> [base EXCEPT !.iouts = <<P(i)>>]
            [] pr = "rsp"     -> [base EXCEPT !.rsp = TRUE]
            \* both response-file bindings are there, but the path evaluates to nothing for this statement (a rule shared
            \* by statements with and without a response file): nothing is written, the content still is part of the command
            [] pr = "rspnone" -> [rspnone |-> TRUE] @@ [base EXCEPT !.rsp = TRUE]
            [] pr = "depfile" -> [base EXCEPT !.deps = "depfile", !.hdrs = <<hsrc>>]
            [] pr = "gcc"     -> [base EXCEPT !.deps = "gcc", !.hdrs = <<hsrc>>]
            [] pr = "msvc"    -> [base EXCEPT !.deps = "msvc", !.hdrs = <<hsrc>>]
            [] pr = "badrsp"  -> [base EXCEPT !.rsp = TRUE, !.badrspdir = TRUE]
            [] pr = "restatgcc" -> [base EXCEPT !.deps = "gcc", !.hdrs = <<hsrc>>, !.restat = TRUE]
            \* several outputs and recorded dependencies (the record that counts is the first output's)
            [] pr = "twogcc"  -> [base EXCEPT !.outs = <<O(i), P(i)>>, !.deps = "gcc", !.hdrs = <<hsrc>>]
            \* header generated by statement 1, with the order-only path the manual prescribes
            [] pr = "gccgen"  -> IF i > 1 /\ "o1" \notin ins
                                 THEN [base EXCEPT !.deps = "gcc", !.hdrs = <<"o1">>, !.oo = Append(sk.oo, "o1")]
                                 ELSE [base EXCEPT !.deps = "gcc", !.hdrs = <<hsrc>>]

Srcs(stmts) ==
  LET used == UNION {ToSet(stmts[i].ex) \cup ToSet(stmts[i].im) \cup ToSet(stmts[i].oo) \cup ToSet(stmts[i].hdrs) \cup ToSet(stmts[i].ddi) : i \in DOMAIN stmts}
      outs == UNION {ToSet(stmts[i].outs) \cup ToSet(stmts[i].iouts) \cup ToSet(stmts[i].ddo) : i \in DOMAIN stmts}
  IN SetToSeq(used \ outs)

Graph(stmts) == [srcs |-> Srcs(stmts), pools |-> <<>>, stmts |-> stmts]
St1(i, outs, ex, oo) == [Stmt0 EXCEPT !.id = i, !.outs = outs, !.ex = ex, !.oo = oo]

\* all profile assignments for a shape
GraphsOf(shape, profs) ==
  LET sk == Shapes[shape]
      n == Len(sk)
  IN { Graph([i \in 1..n |-> Mk(i, sk[i], pa[i])]) : pa \in [1..n -> profs] }

\* canonical: phony statements only take the "plain" profile
Canon(shape, pa) == \A i \in DOMAIN pa : Shapes[shape][i].phony => pa[i] = "plain"
GraphsOfC(shape, profs) ==
  LET sk == Shapes[shape]
      n == Len(sk)
  IN { Graph([i \in 1..n |-> Mk(i, sk[i], pa[i])]) : pa \in {q \in [1..n -> profs] : Canon(shape, q)} }

(***************************************************************************)
(* Histories.                                                               *)
(***************************************************************************)
AllOutsG(gr) == UNION {ToSet(gr.stmts[i].outs) \cup ToSet(gr.stmts[i].iouts) : i \in DOMAIN gr.stmts}
Consumed(gr) == UNION {ToSet(gr.stmts[i].ex) \cup ToSet(gr.stmts[i].im) \cup ToSet(gr.stmts[i].oo) \cup ToSet(gr.stmts[i].ddi) : i \in DOMAIN gr.stmts}
Roots(gr) == SetToSeq({gr.stmts[i].outs[1] : i \in {j \in DOMAIN gr.stmts : ToSet(gr.stmts[j].outs) \cap Consumed(gr) = {}}})

Build(targets, j, k) == [op |-> "build", targets |-> targets, j |-> j, k |-> k, fail |-> <<>>]
BuildF(targets, j, k, fail) == [op |-> "build", targets |-> targets, j |-> j, k |-> k, fail |-> fail]

Cmds(gr) == {i \in DOMAIN gr.stmts : ~gr.stmts[i].phony}

\* single changes between two builds
Changes(gr) ==
  {[op |-> "edit", f |-> s] : s \in ToSet(gr.srcs)}
  \cup {[op |-> "touch", f |-> s] : s \in ToSet(gr.srcs)}
  \cup {[op |-> "del", f |-> o] : o \in UNION {ToSet(gr.stmts[i].outs) \cup ToSet(gr.stmts[i].iouts) : i \in Cmds(gr)}}
  \cup {[op |-> "del", f |-> gr.stmts[i].outs[1] \o ".d"] : i \in {j \in Cmds(gr) : gr.stmts[j].deps = "depfile"}}
  \cup {[op |-> "ver", s |-> i] : i \in Cmds(gr)}
  \cup {[op |-> "rspver", s |-> i] : i \in {j \in Cmds(gr) : gr.stmts[j].rsp}}
  \cup {[op |-> "droplog"], [op |-> "dropdeps"]}

Scn(gr, hist) == [srcs |-> gr.srcs, pools |-> gr.pools, stmts |-> gr.stmts, hist |-> hist]

\* build, change, build, build again (convergence), for all roots
HistChange(gr, j) ==
  { <<Build(Roots(gr), j, 1), c, Build(Roots(gr), j, 1), Build(Roots(gr), j, 1)>> : c \in Changes(gr) }
\* two changes
HistChange2(gr, j) ==
  { <<Build(Roots(gr), j, 1), c1, c2, Build(Roots(gr), j, 1), Build(Roots(gr), j, 1)>> : c1 \in Changes(gr), c2 \in Changes(gr) }
\* partial target first, then a change, then everything
HistPartial(gr, j) ==
  { <<Build(<<t>>, j, 1), c, Build(Roots(gr), j, 1), Build(Roots(gr), j, 1)>> : t \in AllOutsG(gr), c \in Changes(gr) }

\* failures: every non-empty subset of commands fails in the second build
FailSets(gr) == {S \in SUBSET Cmds(gr) : S # {} /\ Cardinality(S) <= 2}
FailRec(S, code, touch) == SetToSeq({[s |-> i, code |-> code, touch |-> touch] : i \in S})
HistFail(gr, j, k) ==
  { <<BuildF(Roots(gr), j, k, FailRec(S, code, touch)), Build(Roots(gr), j, 1), Build(Roots(gr), j, 1)>> :
      S \in FailSets(gr), code \in {1, 3}, touch \in BOOLEAN }
  \cup
  { <<Build(Roots(gr), j, 1), c, BuildF(Roots(gr), j, k, FailRec(S, 2, touch)), Build(Roots(gr), j, 1)>> :
      S \in FailSets(gr), touch \in BOOLEAN, c \in {x \in Changes(gr) : x.op \in {"edit", "del"}} }

\* a command that reads headers is re-run after a header changed and fails after it has already truncated its depfile
\* (the outputs and the build log are as they were): the dependencies it had are no longer on record
FailEdep(S) == SetToSeq({[s |-> i, code |-> 1, touch |-> FALSE, edep |-> TRUE] : i \in S})
HistFailDep(gr, j) ==
  UNION { { <<Build(Roots(gr), j, 1), [op |-> o, f |-> gr.stmts[i].hdrs[1]], BuildF(Roots(gr), j, 1, FailEdep({i})), Build(Roots(gr), j, 1), Build(Roots(gr), j, 1)>> :
              o \in {"edit", "touch"} } : i \in {x \in Cmds(gr) : gr.stmts[x].deps \in {"depfile", "gcc"} /\ gr.stmts[x].hdrs # <<>>} }

(***************************************************************************)
(* Families.  (Operators with a parameter: TLC evaluates every              *)
(* parameterless constant definition at start-up.)  K bounds the number of  *)
(* profile assignments sampled per shape and CH the number of changes       *)
(* sampled per graph (RandomSubset draws from TLC's generator, seeded by    *)
(* -seed); a K / CH at least as large as the underlying set makes the       *)
(* family exhaustive.                                                       *)
(***************************************************************************)
Pick(k, S) == IF Cardinality(S) <= k THEN S ELSE RandomSubset(k, S)
PickF(k, n, profs) == IF Cardinality(profs) * n <= 6 THEN [1..n -> profs] ELSE RandomSubset(k, [1..n -> profs])

GraphsS(shape, profs, K) ==
  LET sk == Shapes[shape]
      n == Len(sk)
  IN { Graph([i \in 1..n |-> Mk(i, sk[i], IF sk[i].phony THEN "plain" ELSE pa[i])]) : pa \in PickF(K, n, profs) }

BaseProfiles == {"plain", "restat", "gen", "two", "rsp", "depfile", "gcc", "msvc", "gccgen", "restatgcc", "iout", "twogcc"}
SmallShapes == {"single", "chain2", "chain3", "fanin", "fanout", "implicit", "oonly", "mixed", "indep", "alias", "aliasoo", "aliasooim", "aliasooex", "aliasoo2", "midoo", "valid", "validrev", "validch"}

\* a command line (or response file) is changed, built, and changed back: the records of the build in between decide
\* whether the third build sees the change (C01: "command-line, response-file ... changes")
GenStmts(gr) == {i \in Cmds(gr) : gr.stmts[i].gen}
FlipHists(gr) ==
  UNION { { <<Build(Roots(gr), jj[1], 1), [op |-> o, s |-> i], c, Build(Roots(gr), jj[2], 1), [op |-> "verback", s |-> i], Build(Roots(gr), 2, 1), Build(Roots(gr), 2, 1)>> :
              i \in {x \in Cmds(gr) \ GenStmts(gr) : o = "rspver" => gr.stmts[x].rsp}, jj \in {<<1, 2>>, <<2, 1>>, <<2, 2>>},
              \* together with the change another statement - a generator statement if there is one - has to run again
              c \in {[op |-> "del", f |-> gr.stmts[x].outs[1]] : x \in GenStmts(gr)} \cup {[op |-> "touch", f |-> gr.srcs[1]]} } :
          o \in {"ver", "rspver"} }
\* a generator statement next to statements that share nothing with it (ninja closes the build log before it starts a
\* generator statement and reopens it for the next record)
FlipGraphs ==
  UNION { { Graph(<<Mk(1, C(<<"s1">>), "gen"), Mk(2, C(<<"s2">>), p2), Mk(3, C(<<"o2">>), "plain")>>),
            Graph(<<Mk(1, C(<<"s2">>), p2), Mk(2, C(<<"s1">>), "gen"), Mk(3, C(<<"o1">>), "plain")>>) } : p2 \in {"plain", "rsp", "restat", "two"} }
\* a statement whose rule binds rspfile / rspfile_content while the path evaluates to nothing for it: built, built again
\* (the record written by the first build has to match what the second scan computes), content and source changes
RspNoneGraphs == { Graph(<<Mk(1, C(<<"s1">>), "rspnone"), Mk(2, C(<<"o1">>), p2)>>) : p2 \in {"plain", "rsp", "rspnone"} }
RspNoneHists(gr) ==
  { <<Build(Roots(gr), 1, 1), Build(Roots(gr), 1, 1)>>,
    <<Build(Roots(gr), 2, 1), [op |-> "rspver", s |-> 1], Build(Roots(gr), 2, 1), Build(Roots(gr), 2, 1)>>,
    <<Build(Roots(gr), 1, 1), [op |-> "edit", f |-> "s1"], Build(Roots(gr), 1, 1), Build(Roots(gr), 1, 1)>>,
    <<Build(Roots(gr), 1, 1), [op |-> "rspver", s |-> 1], Build(Roots(gr), 1, 1), [op |-> "verback", s |-> 1], Build(Roots(gr), 1, 1), Build(Roots(gr), 1, 1)>> }
FamFlip(K, CH) ==
  UNION { {Scn(gr, h) : h \in FlipHists(gr)} : gr \in FlipGraphs }
  \cup UNION { {Scn(gr, h) : h \in RspNoneHists(gr)} : gr \in RspNoneGraphs }
  \cup
  UNION { UNION { {Scn(gr, h) : h \in Pick(CH, FlipHists(gr))} :
                  gr \in {x \in GraphsS(sh, {"plain", "restat", "gen", "rsp", "gcc", "two"}, 3 * K) : GenStmts(x) # {}} \cup GraphsS(sh, {"plain", "restat", "rsp"}, 1) } :
          sh \in {"chain2", "chain3", "fanin", "fanout", "indep", "mixed", "implicit", "oonly"} }

\* "header switch": the set of files a command reads beyond its declared inputs changes with the content of one of its
\* inputs, while what it writes stays the same (and a correct output is left alone): the recorded dependencies of the
\* latest run are the ones that count (C03 / C10: "recorded dependencies")
HswStmt(i, ins, d, h1, h2) == [hsel |-> ins[1], hdrs2 |-> h2] @@ [St1(i, <<O(i)>>, ins, <<>>) EXCEPT !.deps = d, !.hdrs = h1, !.restat = TRUE]
HswGraphs ==
  { [Graph(<< HswStmt(1, <<"s1">>, d, hh[1], hh[2]), St1(2, <<"o2">>, <<"o1">>, <<>>) >>) EXCEPT !.srcs = <<"s1", "h1", "h2">>] :
      d \in {"gcc", "depfile", "msvc"}, hh \in {<< <<"h1">>, <<"h2">> >>, << <<"h1", "h2">>, <<"h1">> >>, << <<"h1">>, <<"h1", "h2">> >>, << <<"h1">>, <<>> >>} }
FamHsw(K, CH) ==
  UNION { {Scn(gr, <<Build(Roots(gr), 1, 1), [op |-> "edit", f |-> "s1"], Build(Roots(gr), 1, 1), [op |-> o, f |-> h], Build(Roots(gr), 1, 1), Build(Roots(gr), 1, 1)>>) :
              o \in {"touch", "edit"}, h \in {"h1", "h2"}}
          \cup {Scn(gr, <<Build(Roots(gr), 1, 1), [op |-> o, f |-> h], Build(Roots(gr), 1, 1), [op |-> "edit", f |-> "s1"], Build(Roots(gr), 1, 1), Build(Roots(gr), 1, 1)>>) :
              o \in {"touch"}, h \in {"h1", "h2"}} :
          gr \in HswGraphs }

\* incremental-build family (C01, C02, C03, C10): shape x profile assignment x single change
FamInc(K, CH) ==
  UNION { UNION { {Scn(gr, <<Build(Roots(gr), 2, 1), c, Build(Roots(gr), 2, 1), Build(Roots(gr), 2, 1)>>) : c \in Pick(CH, Changes(gr))} :
                  gr \in GraphsS(sh, BaseProfiles, K) } : sh \in SmallShapes \cup {"diamond", "group"} }

\* two changes
FamInc2(K, CH) ==
  UNION { UNION { {Scn(gr, <<Build(Roots(gr), 2, 1), cc[1], cc[2], Build(Roots(gr), 2, 1), Build(Roots(gr), 2, 1)>>) :
                     cc \in Pick(CH, Changes(gr) \X Changes(gr))} :
                  gr \in GraphsS(sh, BaseProfiles, K) } :
          sh \in {"chain2", "chain3", "fanin", "fanout", "mixed", "alias", "diamond", "group", "implicit"} }

\* partial target first, then a change, then everything
FamPartial(K, CH) ==
  UNION { UNION { {Scn(gr, <<Build(<<tc[1]>>, 2, 1), tc[2], Build(Roots(gr), 2, 1), Build(Roots(gr), 2, 1)>>) :
                     tc \in Pick(CH, AllOutsG(gr) \X Changes(gr))} :
                  gr \in GraphsS(sh, BaseProfiles, K) } :
          sh \in {"chain3", "fanin", "fanout", "mixed", "alias", "valid", "validrev", "validch", "group", "diamond"} }

\* scheduling family (C04, C06): all shapes, all j
FamSched(K, CH) ==
  UNION { UNION { {Scn(gr, <<Build(Roots(gr), j, 1)>>) : j \in {1, 2, 3}} : gr \in GraphsS(sh, {"plain", "restat", "gcc", "two"}, K) } :
          sh \in ShapeNames }

\* a declared source that is missing and has no rule: as explicit, implicit and order-only input; on a fresh tree, after a
\* build (the statement that names it order-only then has nothing to do), and together with a change that makes it run
MissGraph == Graph(<< St1(1, <<"o1">>, <<"s1">>, <<"s2">>), [St1(2, <<"o2">>, <<"o1">>, <<>>) EXCEPT !.im = <<"s3">>], St1(3, <<"o3">>, <<"o2">>, <<>>) >>)
FamMissing(K, CH) ==
  UNION { {Scn(MissGraph, <<[op |-> "del", f |-> f], Build(Roots(MissGraph), j, 1)>>),
           Scn(MissGraph, <<Build(Roots(MissGraph), j, 1), [op |-> "del", f |-> f], Build(Roots(MissGraph), j, 1), Build(Roots(MissGraph), j, 1)>>),
           Scn(MissGraph, <<Build(Roots(MissGraph), j, 1), [op |-> "del", f |-> f], [op |-> "edit", f |-> "s1"], Build(Roots(MissGraph), j, 1), Build(<<"o1">>, j, 1)>>)} :
          f \in {"s1", "s2", "s3"}, j \in {1, 2} }
FamFailDep(K, CH) ==
  UNION { UNION { {[srcs |-> gr.srcs, pools |-> gr.pools, stmts |-> gr.stmts, hist |-> h, twin |-> "deps"] : h \in HistFailDep(gr, 2)} : gr \in GraphsS(sh, {"plain", "depfile", "gcc", "restat"}, K) } : sh \in {"chain2", "fanin", "fanout", "mixed"} }
\* failure family (C05)
FamFail(K, CH) ==
  UNION { UNION { UNION { {Scn(gr, h) : h \in Pick(CH, HistFail(gr, jk[1], jk[2]))} : jk \in {1, 2} \X {1, 2, 0} } :
                  gr \in GraphsS(sh, {"plain", "restat", "gcc", "depfile"}, K) } :
          sh \in {"chain2", "chain3", "fanin", "fanout", "indep", "mixed", "diamond", "alias", "valid", "oonly", "aliasoo", "aliasoo2", "midoo"} }
  \cup
  \* a header known from the depfile / deps log is edited and the command then fails after it has rewritten its output
  UNION { {Scn(gr, <<Build(Roots(gr), 2, 1), [op |-> "edit", f |-> "s2"], BuildF(Roots(gr), 2, 1, FailRec({2}, 3, TRUE)), Build(Roots(gr), 2, 1), Build(Roots(gr), 2, 1)>>)} :
          gr \in {Graph(<<St1(1, <<"o1">>, <<"s1">>, <<>>), [St1(2, <<"o2">>, <<"o1">>, <<>>) EXCEPT !.deps = d, !.hdrs = <<"s2">>], St1(3, <<"o3">>, <<"o2">>, <<>>)>>) : d \in {"depfile", "gcc", "msvc"}} }
  \cup FamFailDep(K, CH) \cup FamMissing(K, CH)
  \cup
  \* more failures in flight than the budget, with independent work still queued
  UNION { UNION { {Scn(gr, <<BuildF(Roots(gr), jk[1], jk[2], FailRec(S, 1, FALSE))>>) : jk \in {<<2, 1>>, <<3, 1>>, <<3, 2>>, <<4, 2>>}, S \in {X \in SUBSET Cmds(gr) : Cardinality(X) \in {2, 3}}} :
                  gr \in GraphsS(sh, {"plain"}, 1) } :
          sh \in {"wide4", "widejoin", "widephony"} }

(***************************************************************************)
(* Random skeletons: statement i takes every available file (sources and    *)
(* earlier outputs) as explicit / implicit / order-only input or not at     *)
(* all; a statement may be phony (with at least one non-order-only input,   *)
(* the documented always-dirty form is outside C02/C03) and may validate    *)
(* any other output.                                                        *)
(***************************************************************************)
Avail(i) == {"s1", "s2"} \cup {O(j) : j \in 1..(i - 1)}
Kinds == {"n", "e", "i", "o"}
SkelOf(i, km, ph, vs) ==
  Sk(SetToSeq({a \in Avail(i) : km[a] = "e"}), SetToSeq({a \in Avail(i) : km[a] = "i"}),
     SetToSeq({a \in Avail(i) : km[a] = "o"}), SetToSeq(vs), ph = 0 /\ \E a \in Avail(i) : km[a] \in {"e", "i"})
RandSkels(i, n, k) ==
  { SkelOf(i, km, ph, vs) : km \in RandomSubset(k, [Avail(i) -> Kinds]), ph \in RandomSubset(1, {0, 1, 2, 3}),
                            vs \in RandomSubset(1, {{}} \cup {{O(j)} : j \in (1..n) \ {i}}) }
RandGraphs3(profs, k) ==
  { Graph(<<Mk(1, a, pa[1]), Mk(2, b, pa[2]), Mk(3, c, pa[3])>>) :
      a \in RandSkels(1, 3, 1), b \in RandSkels(2, 3, 2), c \in RandSkels(3, 3, k), pa \in RandomSubset(2, [1..3 -> profs]) }
RandGraphs4(profs, k) ==
  { Graph(<<Mk(1, a, pa[1]), Mk(2, b, pa[2]), Mk(3, c, pa[3]), Mk(4, d, pa[4])>>) :
      a \in RandSkels(1, 4, 1), b \in RandSkels(2, 4, 2), c \in RandSkels(3, 4, 2), d \in RandSkels(4, 4, k), pa \in RandomSubset(2, [1..4 -> profs]) }
\* R independent rounds (every evaluation of RandomSubset draws again)
RandGraphs(profs, R) == UNION { RandGraphs3(profs, 2) \cup RandGraphs4(profs, 2) : r \in 1..R }

CoreProfiles == {"plain", "restat", "gcc", "gccgen", "two", "gen", "depfile", "rsp", "restatgcc"}
ChangesET(gr) == {c \in Changes(gr) : c.op \in {"edit", "touch", "del", "ver"}}
\* random graphs x one or two changes
FamRand(K, CH) ==
  UNION { {Scn(gr, <<Build(Roots(gr), 2, 1), cc[1], cc[2], Build(Roots(gr), 2, 1), Build(Roots(gr), 2, 1)>>) :
              cc \in Pick(CH, ChangesET(gr) \X ChangesET(gr))}
          \cup {Scn(gr, <<Build(Roots(gr), 2, 1), c, Build(Roots(gr), 3, 1), Build(Roots(gr), 1, 1)>>) : c \in Pick(CH, Changes(gr))} :
          gr \in RandGraphs(CoreProfiles, K) }

(***************************************************************************)
(* Pools, jobserver, interrupts, crashes (C06, C07).                        *)
(***************************************************************************)
PoolDecls == <<[name |-> "p1", depth |-> 1], [name |-> "p2", depth |-> 2]>>
PoolNames == {"", "p1", "p2", "console"}
WithPools(gr, pa) == [gr EXCEPT !.pools = PoolDecls,
                                \* phony statements can be bound to a pool too (they take a slot of it while they wait in the queue)
                                !.stmts = [i \in DOMAIN gr.stmts |-> [gr.stmts[i] EXCEPT !.pool = pa[i]]]]
BX(targets, j, k, extra) == extra @@ Build(targets, j, k)
PoolShapes == {"wide4", "widejoin", "widephony", "fanout", "fanin", "diamond", "group", "alias", "chain3", "indep"}
PoolGraphs(profs, K) ==
  UNION { UNION { {WithPools(gr, pa) : pa \in RandomSubset(2, [1..Len(gr.stmts) -> PoolNames])} : gr \in GraphsS(sh, profs, K) } : sh \in PoolShapes }

\* pool statements with order-only inputs produced by other statements (clean statements that wait in the plan)
PoolGraphsOO(K) ==
  UNION { {WithPools(gr, pa) : pa \in RandomSubset(K, [1..Len(gr.stmts) -> {"p1", "p1", "console", ""}])} :
          gr \in { Graph(<<Mk(1, C(<<"s1">>), k1), Mk(2, C(<<"s2">>), "plain"), Mk(3, C(<<"s2">>), "plain"), Mk(4, Sk(<<"s1">>, <<>>, <<"o1">>, <<>>, FALSE), "plain"),
                           Mk(5, Sk(<<"s2">>, <<>>, <<"o1">>, <<>>, FALSE), k5)>>) : k1 \in {"plain", "restat"}, k5 \in {"plain", "restat"} } }
\* a phony statement bound to a pool becomes ready while the commands of that pool outnumber its depth
PhonyPoolGraphs ==
  { [Graph(<< St1(1, <<"o1">>, <<"s1">>, <<>>),
              [St1(2, <<"o2">>, <<"o1">>, <<>>) EXCEPT !.phony = TRUE, !.pool = q],
              [St1(3, <<"o3">>, <<"s1">>, <<>>) EXCEPT !.pool = q],
              [St1(4, <<"o4">>, <<"s2">>, <<>>) EXCEPT !.pool = q],
              [St1(5, <<"o5">>, <<"o2">>, <<>>) EXCEPT !.pool = q5],
              [St1(6, <<"o6">>, <<"s2">>, <<>>) EXCEPT !.pool = q] >>) EXCEPT !.pools = PoolDecls] :
      q \in {"p1", "p2", "console"}, q5 \in {"", "p1"} }
FamPools(K, CH) ==
  UNION { {Scn(gr, <<BX(SetToSeq(AllOutsG(gr)), j, 1, [fail |-> <<>>])>>) : j \in {2, 3, 4}} : gr \in PhonyPoolGraphs }
  \cup
  UNION { {Scn(gr, <<BX(Roots(gr), jk[1], jk[2], [fail |-> f])>>) :
              jk \in {1, 2, 3} \X {1, 0}, f \in {<<>>} \cup Pick(1, {FailRec(S, 1, FALSE) : S \in FailSets(gr)})}
          \* incremental builds: part of the plan is clean or gets pruned by restat while pool statements wait
          \cup {Scn(gr, <<Build(Roots(gr), 2, 1), c1, c2, BX(Roots(gr), j, 1, [fail |-> <<>>]), Build(Roots(gr), 2, 1)>>) :
                  j \in {2, 3, 4}, c1 \in Pick(2, {x \in Changes(gr) : x.op \in {"touch", "edit"}}), c2 \in Pick(2, {x \in Changes(gr) : x.op \in {"touch", "del"}})} :
          gr \in PoolGraphs({"plain", "restat", "two"}, K) \cup PoolGraphsOO(K) }

\* jobserver: tok tokens in the FIFO (plus the implicit one); start failures (rspfile in a directory that cannot be made)
FamJobs(K, CH) ==
  UNION { {Scn(gr, <<BX(Roots(gr), 4, k, [fail |-> f, tok |-> tok])>>) :
              k \in {1, 0}, tok \in {0, 1, 2}, f \in {<<>>} \cup Pick(1, {FailRec(S, 1, FALSE) : S \in FailSets(gr)})} :
          gr \in PoolGraphs({"plain", "restat", "badrsp"}, K) }

\* interrupt at the w-th wait, then a recovery build
FamIntr(K, CH) ==
  UNION { {Scn(gr, <<BX(Roots(gr), j, 1, [intr |-> w, tok |-> tok]), Build(Roots(gr), 2, 1), Build(Roots(gr), 2, 1)>>) :
              j \in {2, 3}, w \in {1, 2, 3}, tok \in {0 - 1, 1}} :
          gr \in UNION {GraphsS(sh, {"plain", "restat", "two", "gcc", "depfile", "rsp"}, K) : sh \in {"chain2", "fanin", "fanout", "mixed", "group", "wide4", "implicit"}} }
  \cup
  UNION { {Scn(gr, <<Build(Roots(gr), 2, 1), c, BX(Roots(gr), 2, 1, [intr |-> w]), Build(Roots(gr), 2, 1), Build(Roots(gr), 2, 1)>>) :
              w \in {1, 2}, c \in Pick(CH, ChangesET(gr))} :
          gr \in UNION {GraphsS(sh, {"plain", "restat", "two", "gcc", "depfile", "rsp"}, K) : sh \in {"chain2", "fanin", "fanout", "mixed", "group", "implicit"}} }

CrashPoints == {"start", "fin-extractdeps", "fin-restat", "fin-planfinished", "fin-rspremove", "fin-logappend", "fin-depsappend",
                "buildlog-record", "depslog-record", "depslog-id"}
CrashGraphs(K) == UNION {GraphsS(sh, {"plain", "restat", "two", "gcc", "depfile", "rsp", "restatgcc"}, K) : sh \in {"chain2", "fanin", "fanout", "mixed", "group", "implicit", "oonly"}}
\* ninja dies between the build-log record and the deps-log record of a statement that reads a restat statement's output
\* through a phony alias; the recovery build finds that output untouched while a recorded header was edited meanwhile
CrashAliasGraph == Graph(<<Mk(1, C(<<"s1">>), "restat"), Mk(2, Sk(<<"o1">>, <<>>, <<>>, <<>>, TRUE), "plain"), Mk(3, C(<<"o2">>), "gcc"), Mk(4, C(<<"o3">>), "plain")>>)
FamCrash(K, CH) ==
  {Scn(CrashAliasGraph, <<BX(Roots(CrashAliasGraph), 1, 1, [crash |-> [point |-> pt, n |-> n]]), [op |-> "touch", f |-> "s1"], [op |-> "edit", f |-> CrashAliasGraph.stmts[3].hdrs[1]],
                          Build(Roots(CrashAliasGraph), 2, 1), Build(Roots(CrashAliasGraph), 2, 1)>>) : pt \in {"fin-logappend", "fin-depsappend", "depslog-record"}, n \in {1, 2, 3}}
  \cup
  UNION { {Scn(gr, <<BX(Roots(gr), j, 1, [crash |-> [point |-> pt, n |-> n]]), Build(Roots(gr), 2, 1), Build(Roots(gr), 2, 1)>>) :
              j \in {1, 2}, pt \in CrashPoints, n \in {1, 2}} : gr \in CrashGraphs(K) }
  \cup
  UNION { {Scn(gr, <<Build(Roots(gr), 2, 1), c, BX(Roots(gr), 2, 1, [crash |-> [point |-> pt, n |-> n]]), Build(Roots(gr), 2, 1), Build(Roots(gr), 2, 1)>>) :
              pt \in CrashPoints, n \in {1, 2}, c \in Pick(CH, ChangesET(gr))} : gr \in CrashGraphs(K) }

(***************************************************************************)
(* C10: discovered dependencies versus the same dependencies declared.      *)
(* Profiles: header is a source, or generated by statement 1 with           *)
(* ("gccgen") or without ("gccgen0", "depgen0") an order-only path to the   *)
(* generator.  Without a manifest path the history first brings the         *)
(* generator up to date (Appendix A, first-build ordering).                 *)
(***************************************************************************)
MkT(i, sk, pr) ==
  LET base == [Stmt0 EXCEPT !.id = i, !.outs = <<O(i)>>, !.ex = sk.ex, !.im = sk.im, !.oo = sk.oo, !.val = sk.val, !.phony = sk.phony]
      ins == ToSet(sk.ex) \cup ToSet(sk.im) \cup ToSet(sk.oo)
  IN IF sk.phony \/ i = 1 \/ "o1" \in ins THEN Mk(i, sk, IF pr \in {"gccgen0", "depgen0", "msvcgen0"} THEN "gcc" ELSE pr)
     ELSE CASE pr = "gccgen0" -> [base EXCEPT !.deps = "gcc", !.hdrs = <<"o1">>]
            [] pr = "depgen0" -> [base EXCEPT !.deps = "depfile", !.hdrs = <<"o1">>]
            [] pr = "msvcgen0" -> [base EXCEPT !.deps = "msvc", !.hdrs = <<"o1">>]
            [] OTHER -> Mk(i, sk, pr)
TwinProfiles == {"plain", "restat", "gcc", "depfile", "msvc", "gccgen", "gccgen0", "depgen0", "msvcgen0", "restatgcc"}
TwinShapes == {"chain2", "chain3", "fanin", "fanout", "mixed", "indep", "implicit", "oonly", "alias", "diamond"}
TwinGraphs(K) ==
  UNION { LET sk == Shapes[sh]  n == Len(sk) IN
          { Graph([i \in 1..n |-> MkT(i, sk[i], IF sk[i].phony THEN "plain" ELSE pa[i])]) : pa \in PickF(K, n, TwinProfiles) } : sh \in TwinShapes }
HasDeps(gr) == \E i \in DOMAIN gr.stmts : gr.stmts[i].deps # ""
\* changes that have a counterpart in the declared variant (a depfile can only be deleted in the discovered one)
ChangesTw(gr) == {c \in ChangesET(gr) : c.op = "del" => c.f \in AllOutsG(gr)}
ScnT(gr, hist, kind) == [srcs |-> gr.srcs, pools |-> gr.pools, stmts |-> gr.stmts, hist |-> hist, twin |-> kind]
\* several recorded dependencies per statement: a plain header shared by two consumers in front of a header generated by
\* statement 1 (with and without a manifest path to the generator), deps log and depfile
MultiHdrGraphs ==
  { Graph(<< St1(1, <<"o1">>, <<"s1">>, <<>>),
             [St1(2, <<"o2">>, <<"s2">>, oo) EXCEPT !.deps = d, !.hdrs = hh],
             [St1(3, <<"o3">>, <<"s2">>, oo) EXCEPT !.deps = d, !.hdrs = hh],
             St1(4, <<"o4">>, <<"o2", "o3">>, <<>>) >>) :
      d \in {"gcc", "depfile", "msvc"}, oo \in {<<>>, <<"o1">>}, hh \in {<<"h", "o1">>, <<"o1", "h">>, <<"h", "h2", "o1">>} }
FamTwin(K, CH) ==
  UNION { {ScnT(gr, <<Build(<<"o1">>, 1, 1), Build(Roots(gr), j, 1), [op |-> "edit", f |-> "h"], [op |-> e, f |-> "s1"], Build(Roots(gr), j, 1), Build(Roots(gr), j, 1)>>, "deps") :
              j \in {1, 2, 3}, e \in {"edit", "touch"}} : gr \in MultiHdrGraphs }
  \cup
  UNION { {ScnT(gr, <<Build(<<"o1">>, 1, 1), Build(Roots(gr), j, 1), cc[1], cc[2], Build(Roots(gr), j, 1), Build(Roots(gr), j, 1)>>, "deps") :
              j \in {1, 2}, cc \in Pick(CH, ChangesTw(gr) \X ChangesTw(gr))}
          \cup {ScnT(gr, <<Build(<<"o1">>, 1, 1), Build(Roots(gr), 2, 1), c, Build(<<t>>, 2, 1), Build(Roots(gr), 2, 1)>>, "deps") :
              c \in Pick(CH, ChangesTw(gr)), t \in Pick(2, AllOutsG(gr))} :
          gr \in {x \in TwinGraphs(K) : HasDeps(x)} }

(***************************************************************************)
(* C11 / C04: dyndep.  Explicit graphs: the dyndep file is a source or is   *)
(* produced during the build (by a clean or dirty statement), is shared,    *)
(* two levels deep, adds inputs (sources or outputs of other statements),   *)
(* outputs and restat.  A dyndep-discovered output is consumed only through *)
(* dyndep-discovered inputs (DESIGN.md 6.C11).                              *)
(***************************************************************************)
DynGraphs == {
  \* dd is a source; discovered input is a source
  Graph(<< [St1(1, <<"o1">>, <<"s1">>, <<"dd">>) EXCEPT !.dd = "dd", !.ddi = <<"s2">>] >>),
  \* dd is produced; discovered input is the output of statement 3
  Graph(<< [St1(1, <<"dd">>, <<"s1">>, <<>>) EXCEPT !.mkdd = "dd"],
           [St1(2, <<"o2">>, <<"s2">>, <<"dd">>) EXCEPT !.dd = "dd", !.ddi = <<"o3">>],
           St1(3, <<"o3">>, <<"s1">>, <<>>) >>),
  \* discovered output consumed through a discovered input
  Graph(<< [St1(1, <<"dd">>, <<"s1">>, <<>>) EXCEPT !.mkdd = "dd"],
           [St1(2, <<"o2">>, <<"s2">>, <<"dd">>) EXCEPT !.dd = "dd", !.ddo = <<"x2">>],
           [St1(3, <<"o3">>, <<"s2">>, <<"dd">>) EXCEPT !.dd = "dd", !.ddi = <<"x2">>] >>),
  \* shared dyndep file, restat through dyndep
  Graph(<< [St1(1, <<"dd">>, <<"s1">>, <<>>) EXCEPT !.mkdd = "dd"],
           [St1(2, <<"o2">>, <<"s2">>, <<"dd">>) EXCEPT !.dd = "dd", !.ddi = <<"s1">>, !.ddr = TRUE],
           [St1(3, <<"o3">>, <<"o2">>, <<"dd">>) EXCEPT !.dd = "dd", !.ddi = <<"s2">>],
           St1(4, <<"o4">>, <<"o2">>, <<>>) >>),
  \* two levels: the second dyndep file is produced by a statement that has a dyndep file itself
  Graph(<< [St1(1, <<"dd1">>, <<"s1">>, <<>>) EXCEPT !.mkdd = "dd1"],
           [St1(2, <<"dd2">>, <<"s2">>, <<"dd1">>) EXCEPT !.mkdd = "dd2", !.dd = "dd1", !.ddi = <<"s1">>],
           [St1(3, <<"o3">>, <<"s1">>, <<"dd2">>) EXCEPT !.dd = "dd2", !.ddi = <<"o4">>],
           St1(4, <<"o4">>, <<"s2">>, <<>>) >>),
  \* another order-only input in front of the dyndep file
  Graph(<< [St1(1, <<"dd">>, <<"s1">>, <<>>) EXCEPT !.mkdd = "dd"],
           St1(2, <<"st">>, <<"s2">>, <<>>),
           [St1(3, <<"o3">>, <<"s2">>, <<"st", "dd">>) EXCEPT !.dd = "dd", !.ddi = <<"o4">>],
           St1(4, <<"o4">>, <<"s1">>, <<>>) >>),
  \* the dyndep file reports as implicit input a file that the statement already lists as order-only input
  Graph(<< [St1(1, <<"dd">>, <<"s1">>, <<>>) EXCEPT !.mkdd = "dd"],
           St1(2, <<"o2">>, <<"s2">>, <<>>),
           [St1(3, <<"o3">>, <<"s1">>, <<"dd", "o2">>) EXCEPT !.dd = "dd", !.ddi = <<"o2">>] >>),
  Graph(<< [St1(1, <<"o1">>, <<"s1">>, <<"dd", "s2">>) EXCEPT !.dd = "dd", !.ddi = <<"s2">>] >>),
  \* the producer of the dyndep file waits (order-only) for the statement whose output the file then names as a discovered
  \* input: when that statement finishes, the dyndep file's clean producer is passed and the file is loaded from inside the
  \* walk over the users of that very output
  Graph(<< St1(1, <<"o1">>, <<"s1">>, <<>>),
           [St1(2, <<"dd">>, <<"s2">>, <<"o1">>) EXCEPT !.mkdd = "dd"],
           [St1(3, <<"o3">>, <<"s2">>, <<"dd">>) EXCEPT !.dd = "dd", !.ddi = <<"o1">>] >>),
  \* the producer of the discovered input is first reached through the dyndep file and has a validation of its own
  \* (a statement that is ready at once / that has to wait for an input of its own)
  Graph(<< [St1(1, <<"dd">>, <<"s1">>, <<>>) EXCEPT !.mkdd = "dd"],
           [St1(2, <<"o2">>, <<"s2">>, <<"dd">>) EXCEPT !.dd = "dd", !.ddi = <<"o3">>],
           [St1(3, <<"o3">>, <<"s1">>, <<>>) EXCEPT !.val = <<"o4">>],
           St1(4, <<"o4">>, <<"s2">>, <<>>) >>),
  Graph(<< [St1(1, <<"dd">>, <<"s1">>, <<>>) EXCEPT !.mkdd = "dd"],
           [St1(2, <<"o2">>, <<"s2">>, <<"dd">>) EXCEPT !.dd = "dd", !.ddi = <<"o3">>],
           [St1(3, <<"o3">>, <<"s1">>, <<>>) EXCEPT !.val = <<"o5">>],
           St1(4, <<"o4">>, <<"s2">>, <<>>),
           St1(5, <<"o5">>, <<"o4">>, <<>>) >>),
  \* dyndep file as implicit input, discovered output and input at once, consumer chain
  Graph(<< [St1(1, <<"dd">>, <<"s1">>, <<>>) EXCEPT !.mkdd = "dd"],
           [St1(2, <<"o2">>, <<"s2">>, <<"dd">>) EXCEPT !.dd = "dd", !.ddi = <<"s1">>, !.ddo = <<"x2">>],
           St1(3, <<"o3">>, <<"o2">>, <<>>),
           [St1(4, <<"o4">>, <<"o3">>, <<"dd">>) EXCEPT !.dd = "dd", !.ddi = <<"x2">>] >>)
}
\* a statement bound to a dyndep file that is rebuilt stays clean, while its discovered input - clean itself - comes from a
\* statement that must wait for a dirty order-only input; only that statement's output is asked for
DynDeep ==
  Graph(<< [St1(1, <<"dd">>, <<"s1">>, <<>>) EXCEPT !.mkdd = "dd"],
           St1(2, <<"st">>, <<"s1">>, <<>>),
           St1(3, <<"g">>, <<"s2">>, <<"st">>),
           [St1(4, <<"out">>, <<"s2">>, <<"dd">>) EXCEPT !.dd = "dd", !.ddi = <<"g">>] >>)
\* dyndep graphs whose statements sit in pools, every declared output asked for: a statement that waits in a pool (or in the
\* ready queue) when a dyndep file loaded during the build names its output as a discovered input (C06: runs at most once)
FamPoolsDyn(K, CH) ==
  UNION { {Scn(WithPools(gr, pa), <<BX(SetToSeq(AllOutsG(gr)), j, 1, [fail |-> <<>>]), Build(SetToSeq(AllOutsG(gr)), 2, 1)>>) :
              j \in {1, 2, 3}, pa \in RandomSubset(K + 1, [1..Len(gr.stmts) -> {"", "p1", "p2", "console"}])} : gr \in DynGraphs }
\* a command fails while the failure budget lasts, and a dyndep file loaded later in the same build names its output as a
\* discovered input: the failed statement is met again by the walk over the new inputs (C06: at most once; C05: contained)
FamDynFail(K, CH) ==
  UNION { {Scn(gr, <<BX(SetToSeq(AllOutsG(gr)), jk[1], jk[2], [fail |-> FailRec({i}, 1, FALSE)]), Build(SetToSeq(AllOutsG(gr)), 2, 1)>>) :
              jk \in {<<2, 0>>, <<3, 2>>, <<3, 0>>}, i \in {x \in Cmds(gr) : gr.stmts[x].mkdd = "" /\ gr.stmts[x].dd = ""}} :
          gr \in {x \in DynGraphs : \E q \in DOMAIN x.stmts : x.stmts[q].mkdd # ""} }
\* restat pruning across a dyndep file that is still pending: a restat statement leaves its output alone, the producer of
\* the dyndep file and the statement bound to that file are out of date only through that output
DynRestatGraphs ==
  { Graph(<< [St1(1, <<"o1">>, <<"s1">>, <<>>) EXCEPT !.restat = TRUE],
             [St1(2, <<"dd">>, <<"o1">>, <<>>) EXCEPT !.mkdd = "dd"],
             [St1(3, <<"o3">>, ex3, <<"dd">>) EXCEPT !.dd = "dd", !.ddi = <<"s2">>, !.restat = r3],
             St1(4, <<"o4">>, <<"o3">>, <<>>) >>) : ex3 \in {<<"o1">>, <<"o1", "s2">>}, r3 \in BOOLEAN }
\* a statement that is out of date only because its dependency record is gone (depfile deleted / deps log dropped) is
\* downstream of a statement bound to a dyndep file that is rebuilt: the dyndep load re-scans it in the middle of the build
DynDepsMissing ==
  { Graph(<< [St1(1, <<"dd">>, <<"s1">>, <<>>) EXCEPT !.mkdd = "dd"],
             [St1(2, <<"o2">>, <<"s2">>, <<"dd">>) EXCEPT !.dd = "dd"],
             [St1(3, <<"o3">>, <<"s2">>, <<>>) EXCEPT !.im = <<"o2">>, !.deps = d, !.hdrs = <<"h">>],
             St1(4, <<"o4">>, <<"o3">>, <<>>) >>) : d \in {"depfile", "gcc"} }
\* restat that only the dyndep file declares: the bound statement re-ran once without changing its output (its log record is
\* newer than the output); then the dyndep file is rebuilt, so at scan time the restat flag is unknown and the statement
\* looks out of date, while the re-scan after the load knows better - it is wanted all the same and its consumer must wait
DynRestatRescan ==
  Graph(<< [St1(1, <<"dd">>, <<"s1">>, <<>>) EXCEPT !.mkdd = "dd"],
           [St1(2, <<"o2">>, <<"s2">>, <<"dd">>) EXCEPT !.dd = "dd", !.ddr = TRUE],
           St1(3, <<"o3">>, <<"s3">>, <<>>),
           St1(4, <<"o4">>, <<"o2", "o3">>, <<>>) >>)
DynVariants(gr) == {gr} \cup {[gr EXCEPT !.stmts = [i \in DOMAIN gr.stmts |-> IF i = k /\ gr.stmts[i].mkdd = "" THEN [gr.stmts[i] EXCEPT !.restat = TRUE] ELSE gr.stmts[i]]] : k \in DOMAIN gr.stmts}
FamDyn(K, CH) ==
  UNION { {ScnT(gr, <<Build(Roots(gr), j, 1), c, Build(Roots(gr), j, 1), Build(Roots(gr), j, 1)>>, "dyn") : j \in {1, 2, 3}, c \in Pick(CH, Changes(gr))}
          \cup {ScnT(gr, <<Build(<<t>>, 2, 1), c, Build(Roots(gr), 2, 1), Build(Roots(gr), 2, 1)>>, "dyn") : t \in Pick(2, AllOutsG(gr)), c \in Pick(CH, Changes(gr))} :
          gr \in UNION {DynVariants(x) : x \in DynGraphs} }
  \cup UNION { {ScnT(gr, <<Build(Roots(gr), j, 1), [op |-> o, f |-> "s1"], Build(Roots(gr), j, 1), Build(Roots(gr), j, 1)>>, "dyn") : j \in {1, 2}, o \in {"touch", "edit"}} : gr \in DynRestatGraphs }
  \cup UNION { {Scn(gr, <<Build(Roots(gr), 2, 1), (IF gr.stmts[3].deps = "depfile" THEN [op |-> "del", f |-> "o3.d"] ELSE [op |-> "dropdeps"]), [op |-> "edit", f |-> "h"], [op |-> "touch", f |-> "s1"],
                          Build(Roots(gr), j, 1), Build(Roots(gr), j, 1)>>) : j \in {1, 2}} : gr \in DynDepsMissing }
  \cup {Scn(DynRestatRescan, <<Build(<<"o4">>, 2, 1), [op |-> "touch", f |-> "s2"], Build(<<"o4">>, 2, 1), [op |-> "touch", f |-> "s1"], [op |-> "touch", f |-> "s3"],
                                Build(<<"o4">>, j, 1), Build(<<"o4">>, j, 1)>>) : j \in {2, 3}}
  \cup {ScnT(DynDeep, <<Build(<<"out">>, j, 1), c, Build(<<"out">>, j, 1), Build(<<"out">>, j, 1), Build(Roots(DynDeep), 2, 1)>>, "dyn") :
          j \in {1, 2}, c \in {x \in Changes(DynDeep) : x.op \in {"touch", "edit"}}}

(***************************************************************************)
(* C17: graphs with back edges.  Statement i may take any output (its own   *)
(* and later ones too) as explicit / implicit / order-only input; cycles    *)
(* can also be closed by a recorded dependency (header = a downstream       *)
(* output, known after the first build) and by dyndep information.          *)
(***************************************************************************)
AvailC(i, n) == {"s1"} \cup {O(j) : j \in 1..n}
SkelC(i, n, km, ph) ==
  LET own(a) == a = O(i) IN
  \* kinds are drawn from 0..7: 0-4 none, 5 explicit, 6 implicit, 7 order-only (sparser back edges)
  Sk(SetToSeq({a \in AvailC(i, n) : km[a] = 5 /\ ~(ph /\ own(a))}), SetToSeq({a \in AvailC(i, n) : km[a] = 6 /\ ~(ph /\ own(a))}),
     SetToSeq({a \in AvailC(i, n) : km[a] = 7 /\ ~(ph /\ own(a))}), <<>>,
     ph /\ \E a \in AvailC(i, n) : km[a] \in {5, 6} /\ ~own(a))
RandSkelsC(i, n, k) == { SkelC(i, n, km, ph = 0) : km \in RandomSubset(k, [AvailC(i, n) -> 0..7]), ph \in RandomSubset(1, {0, 1, 2, 3}) }
MkC(i, sk, pr, n) ==
  LET m == Mk(i, sk, IF pr = "hdrback" THEN "plain" ELSE pr) IN
  IF pr = "hdrback" /\ ~sk.phony THEN [m EXCEPT !.deps = "gcc", !.hdrs = <<O(IF i = n THEN 1 ELSE i + 1)>>] ELSE m
CycGraphs(R) ==
  UNION { { Graph(<<MkC(1, a, pa[1], 3), MkC(2, b, pa[2], 3), MkC(3, c, pa[3], 3)>>) :
              a \in RandSkelsC(1, 3, 2), b \in RandSkelsC(2, 3, 2), c \in RandSkelsC(3, 3, 2), pa \in RandomSubset(2, [1..3 -> {"plain", "two", "restat", "hdrback"}]) } : r \in 1..R }
DynCycGraphs == {
  Graph(<< [St1(1, <<"dd">>, <<"s1">>, <<>>) EXCEPT !.mkdd = "dd"],
           [St1(2, <<"o2">>, <<"s1">>, <<"dd">>) EXCEPT !.dd = "dd", !.ddi = <<"o3">>],
           St1(3, <<"o3">>, <<"o2">>, <<>>) >>),
  Graph(<< [St1(1, <<"o1">>, <<"s1">>, <<"dd">>) EXCEPT !.dd = "dd", !.ddi = <<"o2">>],
           St1(2, <<"o2">>, <<"o1">>, <<>>) >>),
  Graph(<< [St1(1, <<"dd">>, <<"s1">>, <<>>) EXCEPT !.mkdd = "dd"],
           [St1(2, <<"o2">>, <<"s1">>, <<"dd">>) EXCEPT !.dd = "dd", !.ddo = <<"x2">>],
           [St1(3, <<"o3">>, <<"s1">>, <<"dd">>) EXCEPT !.dd = "dd", !.ddi = <<"x2">>, !.ddo = <<"x3">>],
           St1(4, <<"o4">>, <<"o3">>, <<>>) >>) }
\* cycles closed by dyndep information through every output of a multi-output statement, every input kind of the
\* consumer, a consumer chain of length one or two, with the dyndep file a source or produced during the build
DynCycGen ==
  { Graph(<< (IF pr THEN [St1(1, <<"dd">>, <<"s1">>, <<>>) EXCEPT !.mkdd = "dd"] ELSE St1(1, <<"o1">>, <<"s1">>, <<>>)),
             [St1(2, outs2, <<"s1">>, <<"dd">>) EXCEPT !.dd = "dd", !.ddi = <<IF len = 1 THEN "o3" ELSE "o4">>],
             [Stmt0 EXCEPT !.id = 3, !.outs = <<"o3">>, !.ex = IF kind = "ex" THEN <<via>> ELSE <<"s1">>, !.im = IF kind = "im" THEN <<via>> ELSE <<>>,
                           !.oo = IF kind = "oo" THEN <<via>> ELSE <<>>] >>
           \o (IF len = 2 THEN <<St1(4, <<"o4">>, <<"o3">>, <<>>)>> ELSE <<>>)) :
      pr \in BOOLEAN, outs2 \in {<<"o2">>, <<"o2", "p2">>, <<"o2", "p2", "q2">>}, via \in {"o2", "p2", "q2"}, kind \in {"ex", "im", "oo"}, len \in {1, 2} }
DynCycOK == {gr \in DynCycGen : \E k \in DOMAIN gr.stmts[2].outs : gr.stmts[2].outs[k] \in ToSet(gr.stmts[3].ex \o gr.stmts[3].im \o gr.stmts[3].oo)}
\* a cycle that is reachable only through the validation of a validation target
ValCycGraphs ==
  { Graph(<< [St1(1, <<"o1">>, <<"s1">>, <<>>) EXCEPT !.val = <<"o2">>], [St1(2, <<"o2">>, <<"s1">>, <<>>) EXCEPT !.val = <<"o3">>],
             St1(3, <<"o3">>, <<"o4">>, <<>>), St1(4, <<"o4">>, <<"o3">>, <<>>) >>),
    Graph(<< [St1(1, <<"o1">>, <<"s1">>, <<>>) EXCEPT !.val = <<"o2">>], St1(2, <<"o2">>, <<"o5">>, <<>>),
             St1(3, <<"o3">>, <<"o4">>, <<>>), St1(4, <<"o4">>, <<"o3">>, <<>>), [St1(5, <<"o5">>, <<"s1">>, <<>>) EXCEPT !.val = <<"o3">>] >>) }
FamCyc(K, CH) ==
  UNION { {Scn(gr, <<Build(t, j, 1), Build(t, j, 1)>>) : j \in {1, 2}, t \in {<<o>> : o \in AllOutsG(gr)} \cup {SetToSeq(AllOutsG(gr))}} :
          gr \in CycGraphs(K) \cup DynCycGraphs \cup DynCycOK \cup ValCycGraphs }

(***************************************************************************)
(* C19 (dry run) and C01 (edits while commands run).                        *)
(***************************************************************************)
GoodOuts(gr) == SetToSeq({gr.stmts[i].outs[1] : i \in {j \in DOMAIN gr.stmts : ~gr.stmts[j].badrspdir}})
DryShapes == {"chain2", "chain3", "fanin", "fanout", "mixed", "alias", "implicit", "oonly", "valid", "group"}
\* what a dry run prints (the real StatusPrinter on a captured stdout): console-pool statements beside others
DryListGraphs(K) ==
  UNION { {WithPools(gr, pa) : pa \in RandomSubset(K + 1, [1..Len(gr.stmts) -> {"", "console", "p1"}])} : gr \in UNION {GraphsS(sh, {"plain", "restat"}, 1) : sh \in {"wide4", "widejoin", "fanin", "chain3"}} }
FamDry(K, CH) ==
  UNION { {Scn(gr, <<BX(Roots(gr), j, 1, [dry |-> TRUE, printer |-> "pipe", verbose |-> v]), Build(Roots(gr), 2, 1)>>) : j \in {1, 3}, v \in BOOLEAN} : gr \in DryListGraphs(K) }
  \cup
  UNION { {Scn(gr, <<Build(Roots(gr), 2, 1), c, BX(Roots(gr), 2, 1, [dry |-> TRUE]), Build(Roots(gr), 2, 1), Build(Roots(gr), 2, 1)>>) : c \in Pick(CH, Changes(gr))}
          \cup {Scn(gr, <<BX(Roots(gr), 2, 1, [dry |-> TRUE]), Build(Roots(gr), 2, 1)>>)}
          \cup {Scn(gr, <<BuildF(Roots(gr), 2, 0, FailRec(S, 1, TRUE)), BX(Roots(gr), 2, 1, [dry |-> TRUE]), Build(Roots(gr), 2, 1), Build(Roots(gr), 2, 1)>>) : S \in Pick(2, FailSets(gr))}
          \* ninja died while commands were running (they may finish on their own and leave outputs and depfiles behind), then a dry run
          \cup {Scn(gr, <<BX(Roots(gr), 2, 1, [crash |-> [point |-> "start", n |-> n]]), BX(Roots(gr), 2, 1, [dry |-> TRUE]), Build(Roots(gr), 2, 1), Build(Roots(gr), 2, 1)>>) : n \in {1, 2}} :
          gr \in UNION {GraphsS(sh, {"plain", "restat", "gcc", "depfile", "two", "rsp", "gen", "msvc"}, K) : sh \in DryShapes} }
  \cup
  \* a dry run that stops early: one statement's response file cannot be written (which a dry run attempts as well) while
  \* other statements, built before and out of date again, are queued
  UNION { {Scn(gr, <<Build(GoodOuts(gr), 2, 1), c, BX(Roots(gr), 2, 1, [dry |-> TRUE]), Build(GoodOuts(gr), 2, 1), Build(GoodOuts(gr), 2, 1)>>) :
              c \in {x \in Changes(gr) : x.op = "touch"}} :
          gr \in {x \in UNION {GraphsS(sh, {"plain", "gcc", "depfile", "badrsp"}, 3 * K) : sh \in {"indep", "wide4"}} : GoodOuts(x) # <<>> /\ \E i \in DOMAIN x.stmts : x.stmts[i].badrspdir} }

\* a source is edited right after the k-th command start of the second build
EditRunProfiles == {"plain", "two", "gcc", "depfile", "rsp", "iout"}
FamEditRun(K, CH) ==
  UNION { {Scn(gr, <<Build(Roots(gr), 2, 1), c, BX(Roots(gr), j, 1, [editrun |-> <<[k |-> k, f |-> f]>>]), Build(Roots(gr), 2, 1), Build(Roots(gr), 2, 1)>>) :
              j \in {1, 2}, k \in {1, 2}, f \in ToSet(gr.srcs), c \in Pick(CH, ChangesET(gr))}
          \cup {Scn(gr, <<BX(Roots(gr), j, 1, [editrun |-> <<[k |-> k, f |-> f]>>]), Build(Roots(gr), 2, 1), Build(Roots(gr), 2, 1)>>) :
              j \in {1, 2}, k \in {1, 2, 3}, f \in ToSet(gr.srcs)} :
          gr \in UNION {GraphsS(sh, EditRunProfiles, K) : sh \in {"chain2", "chain3", "fanin", "fanout", "mixed", "alias", "implicit", "diamond", "group"}} }

\* outputs (and with them depfiles) in directories of their own: the directory of every output has to exist when its
\* command starts - on the first build, after the output was deleted, and when somebody removes the directory (with the
\* output that ninja saw when it scanned the graph) while an earlier command of the same build is running
RenSeq(q, a, b) == [k \in DOMAIN q |-> IF q[k] = a THEN b ELSE q[k]]
InDir(gr, i) ==
  LET o == gr.stmts[i].outs[1]  n == "d" \o ToString(i) \o "/" \o o IN
  [gr EXCEPT !.stmts = [j \in DOMAIN gr.stmts |-> [gr.stmts[j] EXCEPT !.outs = RenSeq(@, o, n), !.ex = RenSeq(@, o, n), !.im = RenSeq(@, o, n), !.oo = RenSeq(@, o, n), !.val = RenSeq(@, o, n)]]]
DirGraphs(K) ==
  UNION { UNION { {InDir(gr, i) : i \in Cmds(gr)} \cup {InDir(InDir(gr, 1), Len(gr.stmts))} : gr \in GraphsS(sh, {"plain", "restat", "depfile", "gcc", "two"}, K) } :
          sh \in {"chain2", "chain3", "fanin", "fanout", "mixed", "implicit"} }
DirOf(gr, i) == "d" \o ToString(i) \o "/"
HasDir(gr, i) == gr.stmts[i].outs[1] = "d" \o ToString(i) \o "/" \o O(i)
FamDirs(K, CH) ==
  UNION { {Scn(gr, <<Build(Roots(gr), j, 1), c, Build(Roots(gr), j, 1), Build(Roots(gr), j, 1)>>) : j \in {1, 2}, c \in Pick(CH, Changes(gr))}
          \cup UNION { {Scn(gr, <<Build(Roots(gr), 2, 1), c, BX(Roots(gr), j, 1, [editrun |-> <<[k |-> 1, f |-> DirOf(gr, i)]>>]), Build(Roots(gr), 2, 1), Build(Roots(gr), 2, 1)>>) :
                          j \in {1, 2}, c \in {x \in Changes(gr) : x.op \in {"edit", "touch"}}} : i \in {x \in Cmds(gr) : HasDir(gr, x)} } :
          gr \in DirGraphs(K) }

\* a generated header that its reader names twice - as order-only input and, after the first build, as recorded dependency -
\* comes from a restat statement that leaves it alone, while another statement of the same link step really changes
RestatTwiceNamed ==
  { Graph(<< [St1(1, <<"o1">>, <<"s1">>, <<>>) EXCEPT !.restat = TRUE],
             [St1(2, <<"o2">>, <<"s2">>, <<"o1">>) EXCEPT !.deps = d, !.hdrs = <<"o1">>],
             St1(3, <<"o3">>, <<"s3">>, <<>>),
             St1(4, <<"o4">>, <<"o2", "o3">>, <<>>) >>) : d \in {"gcc", "depfile"} }
\* a restat statement with two outputs of which a run rewrites one and leaves the other alone: what depended only on the
\* untouched output has nothing to do
SplitGraphs ==
  { Graph(<< [split |-> TRUE] @@ [St1(1, <<"o1", "p1">>, <<"s1", "s2">>, <<>>) EXCEPT !.restat = TRUE],
             St1(2, <<"o2">>, <<"o1">>, <<>>), [St1(3, <<"o3">>, <<"p1">>, <<>>) EXCEPT !.restat = r3], St1(4, <<"o4">>, <<"o3">>, <<>>) >>) : r3 \in BOOLEAN }
\* restat interplay: statement 1 is a restat statement whose input is touched (it re-runs and leaves
\* its output alone) together with any other change, on random graphs
RestatGraphs(R) ==
  UNION { { Graph(<<Mk(1, a, "restat"), Mk(2, b, pa[2]), Mk(3, c, pa[3])>>) :
              a \in {x \in RandSkels(1, 3, 2) : ~x.phony /\ Len(x.ex) + Len(x.im) > 0}, b \in RandSkels(2, 3, 3), c \in RandSkels(3, 3, 3),
              pa \in RandomSubset(2, [1..3 -> {"plain", "restat", "gcc", "two"}]) }
          \cup { Graph(<<Mk(1, a, "restat"), Mk(2, b, pa[2]), Mk(3, c, pa[3]), Mk(4, d, pa[4])>>) :
              a \in {x \in RandSkels(1, 4, 2) : ~x.phony /\ Len(x.ex) + Len(x.im) > 0}, b \in RandSkels(2, 4, 2), c \in RandSkels(3, 4, 2), d \in RandSkels(4, 4, 2),
              pa \in RandomSubset(2, [1..4 -> {"plain", "restat", "gcc", "two"}]) } : r \in 1..R }
FamRestat(K, CH) ==
  UNION { {Scn(gr, <<Build(Roots(gr), 2, 1), [op |-> "touch", f |-> (gr.stmts[1].ex \o gr.stmts[1].im)[1]], c, Build(Roots(gr), 2, 1), Build(Roots(gr), 2, 1)>>) :
              c \in Pick(CH, ChangesET(gr))} : gr \in RestatGraphs(K) }
  \cup UNION { {Scn(gr, <<Build(Roots(gr), j, 1), [op |-> o, f |-> f], Build(Roots(gr), j, 1), Build(Roots(gr), j, 1)>>) : j \in {1, 2}, o \in {"edit", "touch"}, f \in {"s1", "s2"}} : gr \in SplitGraphs }
  \cup UNION { {Scn(gr, <<Build(Roots(gr), j, 1), [op |-> "touch", f |-> "s1"], [op |-> o, f |-> f], Build(Roots(gr), j, 1), Build(Roots(gr), j, 1)>>) :
                  j \in {1, 2}, o \in {"edit", "touch"}, f \in {"s3", "s2"}} : gr \in RestatTwiceNamed }

(***************************************************************************)
(* C18: cleaning.  After a build (and optional deletions) a clean of every  *)
(* scope, with and without -g / -n; cleandead after a manifest variant that *)
(* drops or renames a statement; then builds that must re-create the files. *)
(***************************************************************************)
CleanOp(mode, args, gf, n) == [op |-> "clean", mode |-> mode, args |-> args, g |-> gf, n |-> n]
RuleName(i) == "r" \o ToString(i)
CleanOps(gr) ==
  {CleanOp("all", <<>>, gf, n) : gf \in BOOLEAN, n \in BOOLEAN}
  \cup {CleanOp("targets", <<t>>, FALSE, n) : t \in AllOutsG(gr), n \in BOOLEAN}
  \cup {CleanOp("targets", SetToSeq(AllOutsG(gr)), FALSE, FALSE)}
  \cup {CleanOp("rules", <<RuleName(i)>>, FALSE, n) : i \in Cmds(gr), n \in BOOLEAN}
  \cup {CleanOp("rules", <<"phony">>, FALSE, n) : n \in BOOLEAN}
DropStmt(gr, k) == [i \in 1..(Len(gr.stmts) - 1) |-> LET s == gr.stmts[IF i < k THEN i ELSE i + 1] IN [s EXCEPT !.id = i]]
\* variants of the manifest: statement k removed (the remaining ones renumbered) if nothing consumes its outputs
Droppable(gr) == {k \in DOMAIN gr.stmts : (\A i \in DOMAIN gr.stmts : gr.stmts[i].dd = "" /\ (i > k => ~gr.stmts[i].gen)) /\ \A o \in ToSet(gr.stmts[k].outs) \cup ToSet(gr.stmts[k].iouts) : o \notin Consumed(gr)}
ToGcc(gr) == [i \in DOMAIN gr.stmts |-> IF gr.stmts[i].deps = "depfile" THEN [gr.stmts[i] EXCEPT !.deps = "gcc"] ELSE gr.stmts[i]]
CleanGraphs(K) ==
  UNION {GraphsS(sh, {"plain", "restat", "gen", "genb", "genc", "two", "iout", "rsp", "depfile", "gcc"}, K) : sh \in {"chain2", "chain3", "fanin", "fanout", "mixed", "alias", "group", "indep", "valid", "oonly"}}
  \cup DynGraphs
\* graphs for the design-level model of the cleaner (spec/Clean.tla): TLC adds the files that exist, the log and the scope
FamCleanMC(K, CH) ==
  UNION {GraphsS(sh, {"plain", "gen", "two", "iout", "rsp", "depfile", "gcc"}, K) : sh \in {"chain2", "fanin", "alias", "valid", "oonly"}}
  \cup {Graph(<<[St1(1, <<"o1">>, <<"s1">>, <<>>) EXCEPT !.val = <<"v">>], St1(2, <<"o2">>, <<"o1">>, <<>>)>>)}     \* a validation target without a statement
  \cup {x \in DynGraphs : Len(x.stmts) <= 3} \cup Pick(3, CycGraphs(1))
FamClean(K, CH) ==
  UNION { {Scn(gr, <<Build(Roots(gr), 2, 1), c, Build(Roots(gr), 2, 1), Build(Roots(gr), 2, 1)>>) : c \in Pick(CH, CleanOps(gr))}
          \cup {Scn(gr, <<Build(Roots(gr), 2, 1), d, c, Build(Roots(gr), 2, 1)>>) :
                  d \in Pick(2, {x \in Changes(gr) : x.op = "del"}), c \in Pick(CH, CleanOps(gr))}
          \cup {Scn(gr, <<c, Build(Roots(gr), 2, 1)>>) : c \in Pick(2, CleanOps(gr))}
          \* files a normal build does not leave behind: the depfile of a deps=gcc statement whose command completed
          \* after ninja died, or whose rule was switched from depfile= to deps=gcc after the build
          \cup {Scn(gr, <<BX(Roots(gr), 2, 1, [crash |-> [point |-> "start", n |-> n]]), c, Build(Roots(gr), 2, 1), Build(Roots(gr), 2, 1)>>) :
                  n \in {2, 3}, c \in Pick(CH, CleanOps(gr))}
          \cup {Scn(gr, <<Build(Roots(gr), 2, 1), [op |-> "setstmts", stmts |-> ToGcc(gr)], c, Build(Roots(gr), 2, 1), Build(Roots(gr), 2, 1)>>) :
                  c \in Pick(CH, CleanOps(gr))}
          \* a phony name that also exists as a file, cleaned by rule name
          \cup UNION { {Scn(gr, <<Build(Roots(gr), 2, 1), [op |-> "edit", f |-> gr.stmts[i].outs[1]], CleanOp("rules", <<"phony">>, FALSE, n), Build(Roots(gr), 2, 1)>>) : n \in BOOLEAN} :
                        i \in {j \in DOMAIN gr.stmts : gr.stmts[j].phony} }
          \* cleandead on the unchanged manifest: nothing is dead, dyndep-declared outputs included
          \cup {Scn(gr, <<Build(Roots(gr), 2, 1), CleanOp("dead", <<>>, FALSE, n), Build(Roots(gr), 2, 1)>>) : n \in BOOLEAN}
          \cup {Scn(gr, <<Build(Roots(gr), 2, 1), [op |-> "setstmts", stmts |-> DropStmt(gr, k)], CleanOp("dead", <<>>, FALSE, n),
                           Build(<<>>, 2, 1)>>) : k \in Droppable(gr), n \in BOOLEAN} :
          gr \in CleanGraphs(K) }
  \* the statement that produced a validation target is dropped: the file is still named by the graph (cleandead keeps it)
  \cup UNION { {Scn(gr, <<Build(SetToSeq(AllOutsG(gr)), 2, 1), [op |-> "setstmts", stmts |-> DropStmt(gr, 1)], CleanOp("dead", <<>>, FALSE, n), Build(<<>>, 2, 1)>>) : n \in BOOLEAN} :
                gr \in {Graph(<<St1(1, <<"o1">>, <<"s1">>, <<>>), [St1(2, <<"o2">>, <<"s2">>, <<>>) EXCEPT !.val = <<"o1">>], St1(3, <<"o3">>, <<"o2">>, <<>>)>>)} }
  \* the producer of a file that a dyndep file (on disk, loaded by the tool) names as a discovered input is dropped: the file
  \* is still named by the graph, though not by the manifest
  \cup UNION { {Scn(gr, <<Build(SetToSeq(AllOutsG(gr)), 2, 1), [op |-> "setstmts", stmts |-> DropStmt(gr, 3)], CleanOp("dead", <<>>, FALSE, n), Build(<<"o2">>, 2, 1)>>) : n \in BOOLEAN} :
                gr \in {Graph(<< [St1(1, <<"dd">>, <<"s1">>, <<>>) EXCEPT !.mkdd = "dd"], [St1(2, <<"o2">>, <<"s2">>, <<"dd">>) EXCEPT !.dd = "dd", !.ddi = <<"o3">>], St1(3, <<"o3">>, <<"s1">>, <<>>) >>)} }
  \* cleaning does not need an acyclic graph: manifests with dependency cycles (which only a build diagnoses)
  \cup UNION { {Scn(gr, <<c>>) : c \in Pick(CH + 2, {x \in CleanOps(gr) : x.mode \in {"targets", "all"}})} : gr \in CycGraphs(K) }

(***************************************************************************)
(* C20, the output stream: what commands print (marks, NUL bytes, ANSI      *)
(* colour sequences, carriage returns, text that looks like ninja's own     *)
(* lines, a long run, with and without a final newline), console-pool       *)
(* statements, failing commands, -j / -k, piped and terminal output; and a  *)
(* rebuild in which restat prunes statements from the plan.                 *)
(***************************************************************************)
OutKinds == {<<>>, <<"mark", "nl">>, <<"mark">>, <<"mark", "nul", "ansi", "mark", "nl">>, <<"ansi", "mark", "nul", "nl", "mark", "nul">>, <<"bracket", "nl", "mark", "nl">>, <<"mark", "cr", "failed", "nl", "long", "nl">>}
WithOut(gr, oa, pa) == [gr EXCEPT !.stmts = [i \in DOMAIN gr.stmts |-> IF gr.stmts[i].phony THEN gr.stmts[i] ELSE [outp |-> oa[i]] @@ [gr.stmts[i] EXCEPT !.pool = pa[i]]]]
StatusGraphs(K) ==
  UNION { UNION { {WithOut(gr, oa, pa) : oa \in RandomSubset(2, [1..Len(gr.stmts) -> OutKinds]), pa \in RandomSubset(2, [1..Len(gr.stmts) -> {"", "", "console"}])} :
                  gr \in GraphsS(sh, {"plain", "restat"}, K) } : sh \in {"wide4", "widejoin", "widephony", "fanin", "fanout", "chain3", "indep"} }
FamStatus(K, CH) ==
  UNION { {Scn(gr, <<BX(Roots(gr), jk[1], jk[2], [fail |-> f, printer |-> m, nstatus |-> ns])>>) :
              jk \in {1, 3, 4} \X {1, 0}, m \in {"pipe", "tty"}, ns \in {"", "<%s|%t|%r|%u|%f|%p> "}, f \in {<<>>} \cup Pick(CH, {FailRec(S, 1, FALSE) : S \in FailSets(gr)})}
          \cup {Scn(gr, <<Build(Roots(gr), 2, 1), c, BX(Roots(gr), 3, 1, [printer |-> m])>>) : m \in {"pipe", "tty"}, c \in Pick(CH, {x \in Changes(gr) : x.op = "touch"})}
          \* -v: the full command line instead of the description, no terminal tricks
          \cup {Scn(gr, <<BX(Roots(gr), 3, 0, [fail |-> f, printer |-> m, verbose |-> TRUE])>>) : m \in {"pipe", "tty"}, f \in {<<>>} \cup Pick(1, {FailRec(S, 1, FALSE) : S \in FailSets(gr)})} :
          gr \in StatusGraphs(K) }

(***************************************************************************)
(* C19, the read-only tools of the real binary: every tool is run on a      *)
(* fresh tree, after a build and a change, and before the builds that must  *)
(* behave as if the tools had not run; command lines and descriptions carry *)
(* quotes, backslashes, control characters and non-ASCII bytes.             *)
(***************************************************************************)
Decors == {"", "quotes", "ctrl", "utf8", "bad8"}
WithDecor(gr, da) == [gr EXCEPT !.stmts = [i \in DOMAIN gr.stmts |-> [decor |-> da[i]] @@ gr.stmts[i]]]
ToolsOp(t) == [op |-> "tools", targets |-> t]
ToolGraphs(K) ==
  UNION { UNION { {WithDecor(gr, da) : da \in RandomSubset(1, [1..Len(gr.stmts) -> Decors])} :
                  gr \in GraphsS(sh, {"plain", "restat", "gcc", "depfile", "two", "rsp", "gen", "iout"}, K) } :
          sh \in {"chain2", "chain3", "fanin", "fanout", "mixed", "alias", "implicit", "oonly", "valid", "validch", "validrev", "group", "diamond", "aliasoo"} }
FamTools(K, CH) ==
  UNION { {Scn(gr, <<ToolsOp(t), Build(Roots(gr), 2, 1)>>) : t \in {Roots(gr)}}
          \cup {Scn(gr, <<Build(Roots(gr), 2, 1), c, ToolsOp(t), Build(Roots(gr), 2, 1), Build(Roots(gr), 2, 1)>>) :
                  c \in Pick(CH, ChangesET(gr)), t \in {Roots(gr)} \cup Pick(1, {<<o>> : o \in AllOutsG(gr)})} :
          gr \in ToolGraphs(K) }
  \* the tools read any loadable manifest, also one whose graph has a dependency cycle (only a build diagnoses it)
  \cup UNION { {Scn(gr, <<ToolsOp(<<o>>)>>) : o \in Pick(1, AllOutsG(gr))} : gr \in Pick(2 * K, CycGraphs(K)) }

\* both logs padded past their recompaction thresholds (op "inflate": copies of their own records, same meaning): the next
\* ninja that opens them for writing recompacts.  Dyndep-discovered outputs (known to the log, not to the manifest),
\* deps-log statements, statements dropped from the manifest.
FamLogs(K, CH) ==
  UNION { {Scn(gr, <<Build(Roots(gr), 2, 1), [op |-> "inflate"], Build(Roots(gr), 2, 1), c, Build(Roots(gr), 2, 1), Build(Roots(gr), 2, 1)>>) : c \in Pick(CH, Changes(gr))}
          \cup {Scn(gr, <<Build(Roots(gr), 2, 1), c, Build(Roots(gr), 2, 1), [op |-> "inflate"], Build(Roots(gr), 2, 1), Build(Roots(gr), 2, 1)>>) : c \in Pick(1, Changes(gr))} :
          gr \in {x \in DynGraphs : \E i \in DOMAIN x.stmts : x.stmts[i].ddo # <<>>} }
  \cup
  UNION { UNION { {Scn(gr, <<Build(Roots(gr), 2, 1), [op |-> "inflate"], Build(Roots(gr), 2, 1), c, Build(Roots(gr), 2, 1), Build(Roots(gr), 2, 1)>>) : c \in Pick(CH, ChangesET(gr))} :
                  gr \in GraphsS(sh, {"plain", "restat", "gcc", "msvc", "depfile", "restatgcc", "two"}, K) } :
          sh \in {"chain2", "fanin", "fanout", "implicit", "mixed"} }
\* the tools asked for several outputs of one statement at once (a statement is one command, however many of its outputs are reached)
FamToolsTwo(K, CH) ==
  UNION { {Scn(gr, <<ToolsOp(gr.stmts[i].outs \o gr.stmts[i].iouts \o Roots(gr))>>) : i \in {j \in Cmds(gr) : Len(gr.stmts[j].outs) + Len(gr.stmts[j].iouts) > 1}} :
          gr \in UNION {GraphsS(sh, {"two", "plain", "iout"}, K) : sh \in {"chain2", "fanout", "fanin", "chain3"}} }
FamToolsLogs(K, CH) ==
  UNION { {Scn(gr, <<Build(Roots(gr), 2, 1), [op |-> "inflate"], ToolsOp(Roots(gr)), Build(Roots(gr), 2, 1), Build(Roots(gr), 2, 1)>>)} :
          gr \in UNION {GraphsS(sh, {"plain", "gcc", "msvc", "restatgcc"}, K) : sh \in {"chain2", "fanin", "fanout"}} }

\* graphs for the design-level model checking of NinjaImplMC (no histories: TLC explores them)
FamMC(K, CH) ==
  UNION {GraphsS(sh, {"plain", "restat", "gcc", "two", "gen", "depfile"}, K) : sh \in {"chain2", "fanin", "fanout", "implicit", "oonly", "alias", "valid", "mixed", "chain3"}}
  \cup UNION {{WithPools(gr, pa) : pa \in RandomSubset(1, [1..Len(gr.stmts) -> PoolNames])} : gr \in GraphsS("wide4", {"plain", "restat"}, 2)}

\* graphs with pools (incl. console) for the design-level checking of the C06 invariants and termination
FamMCPools(K, CH) ==
  UNION { UNION {{WithPools(gr, pa) : pa \in RandomSubset(K, [1..Len(gr.stmts) -> PoolNames])} : gr \in GraphsS(sh, {"plain", "restat"}, 1)} :
          sh \in {"wide4", "widejoin", "widephony", "fanout", "diamond", "group"} }

ParK == IF "K" \in DOMAIN IOEnv THEN atoi(IOEnv.K) ELSE 3
ParCH == IF "CH" \in DOMAIN IOEnv THEN atoi(IOEnv.CH) ELSE 3

Family(name) ==
  CASE name = "inc" -> FamInc(ParK, ParCH)
    [] name = "inc2" -> FamInc2(ParK, ParCH)
    [] name = "flip" -> FamFlip(ParK, ParCH)
    [] name = "hsw" -> FamHsw(ParK, ParCH)
    [] name = "partial" -> FamPartial(ParK, ParCH)
    [] name = "sched" -> FamSched(ParK, ParCH)
    [] name = "fail" -> FamFail(ParK, ParCH)
    [] name = "faildep" -> FamFailDep(ParK, ParCH)
    [] name = "rand" -> FamRand(ParK, ParCH)
    [] name = "mc" -> FamMC(ParK, ParCH)
    [] name = "mcpools" -> FamMCPools(ParK, ParCH)
    [] name = "clean" -> FamClean(ParK, ParCH)
    [] name = "cleanmc" -> FamCleanMC(ParK, ParCH)
    [] name = "restat" -> FamRestat(ParK, ParCH)
    [] name = "dry" -> FamDry(ParK, ParCH)
    [] name = "editrun" -> FamEditRun(ParK, ParCH)
    [] name = "dirs" -> FamDirs(ParK, ParCH)
    [] name = "cyc" -> FamCyc(ParK, ParCH)
    [] name = "twin" -> FamTwin(ParK, ParCH)
    [] name = "dyn" -> FamDyn(ParK, ParCH)
    [] name = "pools" -> FamPools(ParK, ParCH) \cup FamPoolsDyn(ParK, ParCH) \cup FamDynFail(ParK, ParCH)
    [] name = "jobs" -> FamJobs(ParK, ParCH)
    [] name = "intr" -> FamIntr(ParK, ParCH)
    [] name = "crash" -> FamCrash(ParK, ParCH)
    [] name = "status" -> FamStatus(ParK, ParCH)
    [] name = "tools" -> FamTools(ParK, ParCH)
    [] name = "toolstwo" -> FamToolsTwo(ParK, ParCH)
    [] name = "logs" -> FamLogs(ParK, ParCH)
    [] name = "toolslogs" -> FamToolsLogs(ParK, ParCH)

Fam == IF "FAM" \in DOMAIN IOEnv THEN IOEnv.FAM ELSE "sched"
Out == IF "OUT" \in DOMAIN IOEnv THEN IOEnv.OUT ELSE "scenarios.ndjson"

ASSUME PrintT(<<"family", Fam, Cardinality(Family(Fam))>>)
ASSUME ndJsonSerialize(Out, SetToSeq(Family(Fam)))
VARIABLE x
Init == x = 0
Next == x' = x
=============================================================================
