---------------------------- MODULE ManifestTok ----------------------------
(***************************************************************************)
(* C12 at token level: "all single-token mutations of valid manifests",     *)
(* bad escapes, tab indentation.  A reference *parser* over token sequences *)
(* (the manual's statement grammar) produces the statement ASTs of          *)
(* Manifest.tla, whose reference evaluator then gives the graph or the      *)
(* rejection.  TLC takes a few valid token-level programs, applies every    *)
(* deletion, duplication, adjacent swap and substitution by a structural or *)
(* hostile token at every position, evaluates the reference, renders the    *)
(* text and exports (files, expectation); each is an implementation test of *)
(* the real Lexer + ManifestParser.                                         *)
(*                                                                         *)
(* Tokens: keywords, "=", ":", "|", "||", "|@", NL, IND (indentation at the *)
(* start of a line), TAB (a tab there: always an error), words (an          *)
(* expression of text atoms and variable references without unescaped       *)
(* separators) and BAD (a word with a bad $-escape).  In a value (after     *)
(* "=") every token up to the newline is text; in path position every token *)
(* except ":", "|", "||", "|@" and the line structure is a path.  Where an  *)
(* identifier is required ninja's lexer takes the longest identifier        *)
(* prefix; a word that is neither an identifier nor starts with a           *)
(* non-identifier character would be split there - such variants are left   *)
(* unspecified (verdict "unspec") and are not exported.                     *)
(***************************************************************************)
EXTENDS Manifest

\* ---- tokens -----------------------------------------------------------------------------------
KW(s) == [k |-> "kw", s |-> s, e |-> <<T(s)>>]
SY(s) == [k |-> "sy", s |-> s, e |-> <<T(s)>>]
NL == [k |-> "nl", s |-> "NL", e |-> <<>>]
IND == [k |-> "ind", s |-> "IND", e |-> <<>>]
TAB == [k |-> "tab", s |-> "TAB", e |-> <<>>]
BAD == [k |-> "bad", s |-> "b$^d", e |-> <<>>]
\* a word: cls "id" = an identifier, "sp" = starts with a character that cannot start an identifier, "mix" = other
W(e, cls) == [k |-> "w", s |-> cls, e |-> e]
Id(s) == W(<<T(s)>>, "id")

IsWordLike(t) == t.k \in {"w", "kw"}                      \* usable as a path or as text
IsPathTok(t) == t.k \in {"w", "kw"} \/ (t.k = "sy" /\ t.s = "=")
IsIdent(t) == t.k = "kw" \/ (t.k = "w" /\ t.s = "id")
NameOf(t) == t.e[1].s

\* IND that does not start a line is only whitespace; IND NL is a blank line
RECURSIVE Norm(_, _, _)
Norm(q, i, bol) ==
  IF i > Len(q) THEN <<>>
  ELSE LET t == q[i] IN
       IF t.k = "ind" /\ (~bol \/ (i < Len(q) /\ q[i + 1].k = "nl")) THEN Norm(q, i + 1, bol)
       ELSE <<t>> \o Norm(q, i + 1, t.k = "nl")

\* ---- parser ------------------------------------------------------------------------------------
Res(ok, un, i, a) == [ok |-> ok, unspec |-> un, i |-> i, a |-> a]
EOF == [k |-> "eof", s |-> "EOF", e |-> <<>>]
At(q, i) == IF i <= Len(q) THEN q[i] ELSE EOF          \* the end of the file is not the end of a line: the last line needs its newline

RECURSIVE PathsFrom(_, _)
PathsFrom(q, i) == IF i <= Len(q) /\ IsPathTok(q[i]) THEN <<q[i].e>> \o PathsFrom(q, i + 1) ELSE <<>>
\* a bad escape among the paths read from position i up to the next structural token
BadIn(q, i) == LET RECURSIVE B(_) B(j) == j <= Len(q) /\ (q[j].k = "bad" \/ (IsPathTok(q[j]) /\ B(j + 1))) IN B(i)

\* value: every token up to the end of the line, joined by single spaces
RECURSIVE ValFrom(_, _, _)
ValFrom(q, i, first) ==
  IF i > Len(q) \/ q[i].k = "nl" THEN <<>>
  ELSE (IF first THEN <<>> ELSE <<T(" ")>>) \o q[i].e \o ValFrom(q, i + 1, FALSE)
RECURSIVE EndOfLine(_, _)
EndOfLine(q, i) == IF i > Len(q) \/ q[i].k = "nl" THEN i ELSE EndOfLine(q, i + 1)
BadInLine(q, i) == \E j \in i..(EndOfLine(q, i) - 1) : q[j].k \in {"bad", "tab"}

\* indented bindings "IND name = value NL" from position i: [ok, i, binds]
RECURSIVE Binds(_, _, _)
Binds(q, i, acc) ==
  IF At(q, i).k = "tab" THEN [ok |-> FALSE, i |-> i, binds |-> acc]
  ELSE IF i > Len(q) \/ q[i].k # "ind" THEN [ok |-> TRUE, i |-> i, binds |-> acc]
  ELSE IF ~IsIdent(At(q, i + 1)) \/ At(q, i + 2).k # "sy" \/ At(q, i + 2).s # "=" \/ BadInLine(q, i + 3) THEN [ok |-> FALSE, i |-> i, binds |-> acc]
  ELSE LET e == EndOfLine(q, i + 3) IN
       IF e > Len(q) THEN [ok |-> FALSE, i |-> i, binds |-> acc]
       ELSE Binds(q, e + 1, Append(acc, Bd(NameOf(q[i + 1]), ValFrom(q, i + 3, TRUE))))

\* one statement starting at i
Stmt(q, i) ==
  LET t == q[i] IN
  IF t.k \in {"ind", "tab", "sy", "bad"} THEN Res(FALSE, FALSE, i, <<>>)
  ELSE IF t.k = "w" THEN
       \* name = value
       IF t.s # "id" \/ At(q, i + 1).k # "sy" \/ At(q, i + 1).s # "=" \/ BadInLine(q, i + 2) \/ EndOfLine(q, i + 2) > Len(q) THEN Res(FALSE, FALSE, i, <<>>)
       ELSE Res(TRUE, FALSE, EndOfLine(q, i + 2) + 1, <<Let(NameOf(t), ValFrom(q, i + 2, TRUE))>>)
  ELSE IF t.s \in {"rule", "pool"} THEN
       IF ~IsIdent(At(q, i + 1)) \/ At(q, i + 2).k # "nl" THEN Res(FALSE, FALSE, i, <<>>)
       ELSE LET b == Binds(q, i + 3, <<>>) IN
            IF ~b.ok THEN Res(FALSE, FALSE, i, <<>>)
            ELSE IF t.s = "rule" THEN Res(TRUE, FALSE, b.i, <<Rule(NameOf(q[i + 1]), b.binds)>>)
            ELSE \* pool: only depth bindings, at least one, the last one counts
                 IF b.binds = <<>> \/ \E k \in DOMAIN b.binds : b.binds[k].name # "depth" THEN Res(FALSE, FALSE, i, <<>>)
                 ELSE Res(TRUE, FALSE, b.i, <<Pool(NameOf(q[i + 1]), b.binds[Len(b.binds)].val)>>)
  ELSE IF t.s = "default" THEN
       LET ps == PathsFrom(q, i + 1)  j == i + 1 + Len(ps) IN
       IF BadIn(q, i + 1) \/ Len(ps) = 0 \/ At(q, j).k # "nl" THEN Res(FALSE, FALSE, i, <<>>)
       ELSE Res(TRUE, FALSE, j + 1, <<Default(ps)>>)
  ELSE IF t.s \in {"include", "subninja"} THEN
       LET p == At(q, i + 1) IN
       IF ~IsPathTok(p) \/ At(q, i + 2).k # "nl" THEN Res(FALSE, FALSE, i, <<>>)
       ELSE IF ~(Len(p.e) = 1 /\ p.e[1].t = "txt") THEN Res(FALSE, TRUE, i, <<>>)          \* computed file names: not in the reference
       ELSE Res(TRUE, FALSE, i + 3, <<IF t.s = "include" THEN Include(p.e[1].s) ELSE Subninja(p.e[1].s)>>)
  ELSE \* build
       LET outs == PathsFrom(q, i + 1)
           j0 == i + 1 + Len(outs)
           hasO == At(q, j0).k = "sy" /\ At(q, j0).s = "|"
           io == IF hasO THEN PathsFrom(q, j0 + 1) ELSE <<>>
           j1 == IF hasO THEN j0 + 1 + Len(io) ELSE j0
           colon == At(q, j1).k = "sy" /\ At(q, j1).s = ":"
           rn == At(q, j1 + 1)
           ex == PathsFrom(q, j1 + 2)
           j2 == j1 + 2 + Len(ex)
           hasI == At(q, j2).k = "sy" /\ At(q, j2).s = "|"
           im == IF hasI THEN PathsFrom(q, j2 + 1) ELSE <<>>
           j3 == IF hasI THEN j2 + 1 + Len(im) ELSE j2
           hasOO == At(q, j3).k = "sy" /\ At(q, j3).s = "||"
           oo == IF hasOO THEN PathsFrom(q, j3 + 1) ELSE <<>>
           j4 == IF hasOO THEN j3 + 1 + Len(oo) ELSE j3
           hasV == At(q, j4).k = "sy" /\ At(q, j4).s = "|@"
           vals == IF hasV THEN PathsFrom(q, j4 + 1) ELSE <<>>
           j5 == IF hasV THEN j4 + 1 + Len(vals) ELSE j4
           bad == \E j \in (i + 1)..(EndOfLine(q, i + 1) - 1) : q[j].k \in {"bad", "tab"}
       IN IF bad \/ Len(outs) + Len(io) = 0 \/ ~colon THEN Res(FALSE, FALSE, i, <<>>)
          ELSE IF rn.k = "w" /\ rn.s = "mix" THEN Res(FALSE, TRUE, i, <<>>)                    \* the lexer would split the word
          ELSE IF ~IsIdent(rn) \/ At(q, j5).k # "nl" THEN Res(FALSE, FALSE, i, <<>>)
          ELSE LET b == Binds(q, j5 + 1, <<>>) IN
               IF ~b.ok THEN Res(FALSE, FALSE, i, <<>>)
               ELSE Res(TRUE, FALSE, b.i, <<Build(outs, io, NameOf(rn), ex, im, oo, vals, b.binds)>>)

RECURSIVE ParseFrom(_, _, _)
ParseFrom(q, i, acc) ==
  IF i > Len(q) THEN [ok |-> TRUE, unspec |-> FALSE, ast |-> acc]
  ELSE IF q[i].k = "nl" THEN ParseFrom(q, i + 1, acc)
  ELSE LET r == Stmt(q, i) IN
       IF ~r.ok THEN [ok |-> FALSE, unspec |-> r.unspec, ast |-> acc]
       ELSE ParseFrom(q, r.i, acc \o r.a)
ParseToks(q) == ParseFrom(Norm(q, 1, TRUE), 1, <<>>)

\* ---- rendering ---------------------------------------------------------------------------------
RTok(t) == CASE t.k \in {"kw", "sy"} -> t.s [] t.k = "bad" -> "b$^d" [] t.k = "w" -> REs(t.e, TRUE) [] OTHER -> ""
RECURSIVE RenderT(_, _, _)
RenderT(q, i, bol) ==
  IF i > Len(q) THEN ""
  ELSE LET t == q[i] IN
       IF t.k = "nl" THEN "\n" \o RenderT(q, i + 1, TRUE)
       ELSE IF t.k = "ind" THEN (IF bol THEN "  " ELSE "") \o RenderT(q, i + 1, bol)      \* inside a line it is only white space
       ELSE IF t.k = "tab" THEN "\t" \o RenderT(q, i + 1, bol)
       ELSE (IF bol THEN "" ELSE " ") \o RTok(t) \o RenderT(q, i + 1, FALSE)

\* ---- base programs -------------------------------------------------------------------------------
Vx == W(<<Var("x")>>, "sp")
Vy == W(<<Var("y")>>, "sp")
Vin == W(<<Var("in")>>, "sp")
Vout == W(<<Var("out")>>, "sp")
Gt == W(<<T(">")>>, "sp")
Dol == W(<<T("$")>>, "sp")
Oy == W(<<T("o"), Var("y")>>, "mix")
XcY == W(<<T("x:y")>>, "mix")
AspB == W(<<T("a b")>>, "mix")
DotA == W(<<T("./a")>>, "mix")
DdB == W(<<T("d/../b")>>, "mix")
IncF == W(<<T("inc.ninja")>>, "id")
IncF2 == W(<<T("inc2.ninja")>>, "id")

Base1 == <<Id("x"), SY("="), Id("1"), NL,
           KW("pool"), Id("p"), NL, IND, Id("depth"), SY("="), Id("2"), NL,
           KW("rule"), Id("r"), NL, IND, Id("command"), SY("="), Id("cc"), Vin, Gt, Vout, NL, IND, Id("description"), SY("="), Id("d"), Vx, NL,
           KW("build"), Id("a"), SY("|"), Id("c"), SY(":"), Id("r"), Id("s"), SY("|"), Vx, SY("||"), Id("t"), SY("|@"), Id("b"), NL,
              IND, Id("x"), SY("="), Id("9"), NL, IND, KW("pool"), SY("="), Id("p"), NL,
           KW("build"), Id("b"), SY(":"), Id("phony"), Id("s"), NL,
           KW("default"), Id("a"), NL>>
Base2 == <<Id("y"), SY("="), Vx, Id("z"), NL,
           KW("rule"), Id("q"), NL, IND, Id("command"), SY("="), Id("run"), Vx, Vy, NL, IND, Id("restat"), SY("="), Id("1"), NL,
           KW("include"), IncF, NL,
           KW("build"), Oy, XcY, SY(":"), Id("q"), DotA, AspB, NL,
           Id("x"), SY("="), Id("late"), NL,
           KW("build"), DdB, SY(":"), Id("q"), Dol, NL, IND, Id("y"), SY("="), Vx, Dol, NL,
           KW("subninja"), IncF2, NL>>
Inc0 == <<Id("x"), SY("="), Id("8"), NL, KW("build"), W(<<T("i"), Var("x")>>, "mix"), SY(":"), Id("phony"), NL>>
Inc2 == <<Id("x"), SY("="), Id("7"), NL, KW("build"), W(<<T("j"), Var("x")>>, "mix"), SY(":"), Id("q"), Id("s"), NL>>
Base3 == <<KW("rule"), Id("r"), NL, IND, Id("command"), SY("="), Id("c"), Vx, NL, IND, Id("rspfile"), SY("="), Vout, Id(".rsp"), NL,
              IND, Id("rspfile_content"), SY("="), Vin, NL, IND, Id("deps"), SY("="), Id("gcc"), NL, IND, Id("depfile"), SY("="), Vout, Id(".d"), NL,
           KW("rule"), Id("q"), NL, IND, Id("generator"), SY("="), Id("1"), NL, IND, Id("command"), SY("="), Id("g"), NL, IND, Id("dyndep"), SY("="), Id("t"), NL,
           Id("x"), SY("="), Id("2"), NL,
           KW("pool"), Id("p"), NL, IND, Id("depth"), SY("="), Vx, NL,
           KW("build"), Id("a"), Id("b"), SY(":"), Id("r"), Id("s"), Id("t"), NL, IND, Id("x"), SY("="), Id("5"), NL,
           KW("build"), Id("c"), SY(":"), Id("q"), Id("a"), SY("||"), Id("t"), NL, IND, KW("pool"), SY("="), Id("console"), NL,
           KW("build"), Id("all"), SY(":"), Id("phony"), Id("a"), Id("c"), NL,
           KW("default"), Id("all"), Id("c"), NL>>
Bases == {Base1, Base2, Base3}

\* ---- mutations -----------------------------------------------------------------------------------
DelT(q, k) == SubSeq(q, 1, k - 1) \o SubSeq(q, k + 1, Len(q))
DupT(q, k) == SubSeq(q, 1, k) \o SubSeq(q, k, Len(q))
SwapT(q, k) == SubSeq(q, 1, k - 1) \o <<q[k + 1], q[k]>> \o SubSeq(q, k + 2, Len(q))
SubT(q, k, t) == [i \in DOMAIN q |-> IF i = k THEN t ELSE q[i]]
InsT(q, k, t) == SubSeq(q, 1, k - 1) \o <<t>> \o SubSeq(q, k, Len(q))
Hostile == {SY(":"), SY("|"), SY("||"), SY("|@"), SY("="), NL, IND, BAD, KW("build"), KW("rule"), KW("default"), Id("phony"), Id("zz"), Id("r"), Vx, XcY}
LineStarts(q) == {k \in DOMAIN q : k = 1 \/ q[k - 1].k = "nl"}
Mutants(q) ==
  {q} \cup {DelT(q, k) : k \in DOMAIN q} \cup {DupT(q, k) : k \in DOMAIN q} \cup {SwapT(q, k) : k \in 1..(Len(q) - 1)}
  \cup {SubT(q, k, t) : k \in DOMAIN q, t \in Hostile} \cup {InsT(q, k, t) : k \in DOMAIN q, t \in {SY(":"), SY("|"), NL, IND, BAD, Id("zz")}}
  \cup {SubT(q, k, TAB) : k \in {j \in DOMAIN q : q[j].k = "ind"}} \cup {InsT(q, k, TAB) : k \in LineStarts(q)}
  \cup {SubSeq(q, 1, k) : k \in 0..Len(q)}
AllMutants == UNION {Mutants(b) : b \in Bases}

FilesT(q) == [f \in {"build.ninja", "inc.ninja", "inc2.ninja"} |-> IF f = "build.ninja" THEN ParseToks(q).ast ELSE IF f = "inc.ninja" THEN ParseToks(Inc0).ast ELSE ParseToks(Inc2).ast]
Expect(q) == LET p == ParseToks(q) IN IF ~p.ok THEN [ok |-> FALSE, err |-> "syntax"] ELSE Eval(FilesT(q))
TextT(q) == [f \in {"build.ninja", "inc.ninja", "inc2.ninja"} |-> IF f = "build.ninja" THEN RenderT(q, 1, TRUE) ELSE IF f = "inc.ninja" THEN RenderT(Inc0, 1, TRUE) ELSE RenderT(Inc2, 1, TRUE)]

\* one state per mutant: the reference must be total (a verdict for every variant)
VARIABLE mt
Prog0 == [main |-> <<>>, inc |-> <<>>, inc2 |-> <<>>]
TInit == mt \in AllMutants /\ prog = Prog0
TNext == UNCHANGED <<mt, prog>>
TSpec == TInit /\ [][TNext]_<<mt, prog>>
TTotal == LET p == ParseToks(mt) IN p.unspec \/ (LET e == Expect(mt) IN e.ok \/ e.err # "")
BasesValid == \A b \in Bases : Expect(b).ok
StopInitT == mt = <<>> /\ prog = Prog0
ASSUME BasesValid
ASSUME "OUTT" \notin DOMAIN IOEnv \/ ndJsonSerialize(IOEnv.OUTT, SetToSeq({[files |-> TextT(q), exp |-> Expect(q)] : q \in {m \in AllMutants : ~ParseToks(m).unspec}}))
=============================================================================
