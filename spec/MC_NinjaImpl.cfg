SPECIFICATION Spec
CONSTANTS
  MaxInv = 2
  MaxEnv = 1
  MaxClock = 40
  Js = {1, 2}
  Ks = {1}
  Crashes = FALSE
  Toks = {99}
  Prio = TRUE
INVARIANT NoStale
INVARIANT Minimal
INVARIANT Ordered
INVARIANT Contained
INVARIANT Limits
INVARIANT SecondIsNoop
CHECK_DEADLOCK FALSE
