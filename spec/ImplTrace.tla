----------------------------- MODULE ImplTrace -----------------------------
(***************************************************************************)
(* Strict (Impl-level) conformance of the scan/plan transcription of        *)
(* NinjaImpl.tla with the real DependencyScan / Plan: for every invocation  *)
(* recorded by the harness the dirty set, the want map, the readiness of    *)
(* the visited statements and the spliced input lists computed by the       *)
(* model from the logged tree and logs must equal what the code computed    *)
(* (event Scanned, read through the NINJA_VERIF friend accessor).           *)
(* A rejection here is transcription drift (information), never a           *)
(* violation: on the unchanged tree it is a bug of the model.               *)
(***************************************************************************)
EXTENDS NinjaImpl, Json, IOUtils
Tr == ndJsonDeserialize(IOEnv.TRACE)
VARIABLES l, g, inv, loaded, res
vars == <<l, g, inv, loaded, res>>
E == Tr[l]
Init == l = 1 /\ g = [srcs |-> <<>>, pools |-> <<>>, stmts |-> <<>>] /\ inv = [active |-> FALSE] /\ loaded = [ok |-> FALSE]
        /\ res = [checked |-> 0, agree |-> 0, bad |-> {}]

RootSeq(gg) == LET RECURSIVE R(_) R(i) == IF i > Len(gg.stmts) THEN <<>> ELSE SelectSeq(gg.stmts[i].outs \o gg.stmts[i].iouts, LAMBDA o : o \in RootOuts(gg)) \o R(i + 1) IN R(1)
FnOf(q, key) == [x \in {q[i][key] : i \in DOMAIN q} |-> q[CHOOSE i \in DOMAIN q : q[i][key] = x]]

Dyn(gg) == \E i \in DOMAIN gg.stmts : gg.stmts[i].dd # "" \/ "hsel" \in DOMAIN gg.stmts[i] \/ "split" \in DOMAIN gg.stmts[i]    \* (header-switch statements are Ref-level only)
Step ==
  /\ l <= Len(Tr)
  /\ l' = l + 1
  /\ CASE E.e \in {"Reset", "Env", "Clean"} -> g' = E.g /\ UNCHANGED <<inv, loaded, res>>
       [] E.e = "Invoke" -> inv' = [active |-> TRUE, targets |-> E.targets, tree |-> E.tree, dry |-> E.dry] /\ loaded' = [ok |-> FALSE] /\ UNCHANGED <<g, res>>
       [] E.e = "Loaded" -> loaded' = [ok |-> TRUE, blog |-> E.blog, dlog |-> E.dlog] /\ UNCHANGED <<g, inv, res>>
       [] E.e = "Scanned" /\ inv.active /\ loaded.ok /\ ~Dyn(g) /\ AcyclicN(g, inv.tree, [i \in Ids(g) |-> LastNone], Ids(g)) ->
            LET T == inv.tree
                files == Files(g, T) \cup UNION {ToS(loaded.dlog[k].d) : k \in DOMAIN loaded.dlog}
                env == [g |-> g,
                        nm |-> [f \in files \cup {loaded.dlog[k].o : k \in DOMAIN loaded.dlog} |-> Mt(T, f)],
                        blog |-> [o \in {loaded.blog[k].o : k \in DOMAIN loaded.blog} |-> LET b == FnOf(loaded.blog, "o")[o] IN [m |-> b.m, cur |-> b.cur]],
                        dlog |-> [o \in {loaded.dlog[k].o : k \in DOMAIN loaded.dlog} |-> LET d == FnOf(loaded.dlog, "o")[o] IN [m |-> d.m, d |-> d.d]],
                        dfile |-> {i \in Ids(g) : St(g, i).deps = "depfile" /\ Exists(T, DepfilePath(St(g, i)))}]
                r == ScanAll(env, IF inv.targets = <<>> THEN RootSeq(g) ELSE inv.targets)
                wantM == {<<i, IF r.w[i] = "start" THEN 1 ELSE 0>> : i \in DOMAIN r.w}
                wantC == {<<E.want[k].s, E.want[k].w>> : k \in DOMAIN E.want}
                dirtyC == {E.dirty[k] : k \in DOMAIN E.dirty}
                edgesC == FnOf(E.edges, "s")
                rdyBad == {i \in r.st.done : edgesC[i].rdy # (i \notin r.st.notrdy)}
                insBad == {i \in r.st.done : edgesC[i].ins # AllIn(r.st, i)}
                ok == wantM = wantC /\ r.st.dirty = dirtyC /\ rdyBad = {} /\ insBad = {}
            IN res' = [checked |-> res.checked + 1, agree |-> res.agree + (IF ok THEN 1 ELSE 0),
                       bad |-> IF ok \/ Cardinality(res.bad) >= 20 THEN res.bad
                               ELSE res.bad \cup {[l |-> l, want |-> wantM # wantC, dirty |-> r.st.dirty # dirtyC, rdy |-> rdyBad # {}, ins |-> insBad # {},
                                                   detail |-> ToString(<<wantM, wantC, r.st.dirty, dirtyC>>)]}]
               /\ UNCHANGED <<g, inv, loaded>>
       [] OTHER -> UNCHANGED <<g, inv, loaded, res>>
Flush == /\ l = Len(Tr) + 1
         /\ ndJsonSerialize(IOEnv.VIOL, <<[stats |-> [checked |-> res.checked, agree |-> res.agree], bad |-> SetToSeq(res.bad)]>>)
         /\ l' = l + 1 /\ UNCHANGED <<g, inv, loaded, res>>
Spec == Init /\ [][Step \/ Flush]_vars
TraceAccepted == TLCGet("stats").diameter = Len(Tr) + 2
=============================================================================
