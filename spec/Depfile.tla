------------------------------ MODULE Depfile ------------------------------
(***************************************************************************)
(* C15.  The Makefile dialect GCC and Clang write for -MD/-MMD:             *)
(*   Encode  how the compilers spell a list of rules (two dialects:         *)
(*           "gcc10" escapes ':' as '\:', "old" = GCC < 10 and Clang do     *)
(*           not), in several layouts;                                      *)
(*   Decode  the reference reader of that dialect (from the documented      *)
(*           rules: a run of 2N+1 backslashes before a space is N           *)
(*           backslashes and a space inside a name, 2N backslashes end the  *)
(*           name; backslash-# is '#'; '$$' is '$'; backslash-colon not     *)
(*           followed by whitespace is ':'; backslash-newline continues the *)
(*           rule; a name ending in ':' ends the targets).                  *)
(* TLC checks Decode(Encode(x)) = x on the fragment where the dialect is    *)
(* injective; the ambiguous inputs are computed (two different rule lists   *)
(* with the same text), not assumed.  Every unambiguous text is exported    *)
(* with its expected reading as an implementation test.                     *)
(***************************************************************************)
EXTENDS Naturals, Sequences, SequencesExt, FiniteSets, TLC, Json, IOUtils, Randomization

SP == 32
TAB == 9
BS == 92
HASH == 35
DOLLAR == 36
COLON == 58
NL == 10
CR == 13

RECURSIVE Cat(_, _)
Cat(ws, k) == IF k > Len(ws) THEN <<>> ELSE ws[k] \o Cat(ws, k + 1)
Rep(c, n) == [i \in 1..n |-> c]

\* number of backslashes directly before position i
RECURSIVE BsBefore(_, _)
BsBefore(n, i) == IF i > 1 /\ n[i - 1] = BS THEN 1 + BsBefore(n, i - 1) ELSE 0

\* how a compiler writes one file name
EncName(n, dialect) ==
  Cat([i \in 1..Len(n) |->
        CASE n[i] = SP -> Rep(BS, BsBefore(n, i)) \o <<BS, SP>>      \* double the backslashes before it, then escape
          [] n[i] = HASH -> <<BS, HASH>>
          [] n[i] = DOLLAR -> <<DOLLAR, DOLLAR>>
          [] n[i] = COLON /\ dialect = "gcc10" -> <<BS, COLON>>
          [] OTHER -> <<n[i]>>], 1)

RECURSIVE JoinWith(_, _, _)
JoinWith(ws, sep, k) == IF k > Len(ws) THEN <<>> ELSE IF k = Len(ws) THEN ws[k] ELSE ws[k] \o sep \o JoinWith(ws, sep, k + 1)

Eol(layout) == IF layout = "crlf" THEN <<CR, NL>> ELSE <<NL>>
EncRule(r, layout, dialect) ==
  LET ts == [i \in DOMAIN r.t |-> EncName(r.t[i], dialect)]
      ds == [i \in DOMAIN r.d |-> EncName(r.d[i], dialect)]
      sep == IF layout \in {"cont", "crlf"} THEN <<SP, BS>> \o Eol(layout) \o <<SP>> ELSE <<SP>>
      tail == IF layout = "trail" THEN <<SP, SP>> ELSE <<>>
  IN JoinWith(ts, <<SP>>, 1) \o <<COLON>> \o (IF Len(ds) = 0 THEN <<>> ELSE <<SP>> \o JoinWith(ds, sep, 1)) \o tail \o Eol(layout)
Encode(rules, layout, dialect) == Cat([i \in DOMAIN rules |-> EncRule(rules[i], layout, dialect)], 1)

(***************************************************************************)
(* Reference reader.  First pass: tokens of one rule line, de-escaped;      *)
(* a token records whether it ended with an unescaped ':'.                  *)
(***************************************************************************)
IsWs(c) == c \in {SP, TAB, NL, CR, 0}
RECURSIVE RunLen(_, _, _)
RunLen(t, i, c) == IF i <= Len(t) /\ t[i] = c THEN 1 + RunLen(t, i + 1, c) ELSE 0

\* Scan(t, i, cur, toks, rules): state-passing scanner.
\*  cur  = [s |-> bytes so far, colon |-> last byte is a plain ':']
\*  toks = tokens of the current rule (sequence of [s, colon])
\*  rules = finished rules as token sequences
EmptyTok == [s |-> <<>>, colon |-> FALSE]
Push(toks, cur) == IF cur.s = <<>> THEN toks ELSE Append(toks, cur)
RECURSIVE Scan(_, _, _, _, _)
Scan(t, i, cur, toks, rules) ==
  IF i > Len(t) THEN LET tk == Push(toks, cur) IN IF tk = <<>> THEN rules ELSE Append(rules, tk)
  ELSE LET c == t[i] IN
    IF c = BS THEN
      LET k == RunLen(t, i, BS)
          nx == IF i + k <= Len(t) THEN t[i + k] ELSE 0
      IN CASE nx = SP ->
                IF k % 2 = 1 THEN Scan(t, i + k + 1, [s |-> cur.s \o Rep(BS, (k - 1) \div 2) \o <<SP>>, colon |-> FALSE], toks, rules)
                ELSE Scan(t, i + k + 1, EmptyTok, Push(toks, [s |-> cur.s \o Rep(BS, k), colon |-> FALSE]), rules)
           [] nx = HASH -> Scan(t, i + k + 1, [s |-> cur.s \o Rep(BS, k - 1) \o <<HASH>>, colon |-> FALSE], toks, rules)
           [] nx = COLON ->
                IF i + k + 1 > Len(t) \/ IsWs(t[i + k + 1])
                THEN Scan(t, i + k + 1, [s |-> cur.s \o Rep(BS, k) \o <<COLON>>, colon |-> TRUE], toks, rules)
                ELSE Scan(t, i + k + 1, [s |-> cur.s \o Rep(BS, k - 1) \o <<COLON>>, colon |-> FALSE], toks, rules)
           [] nx = NL /\ k >= 1 ->          \* backslash-newline: continuation (k-1 literal backslashes stay in the name)
                Scan(t, i + k + 1, EmptyTok, Push(toks, [s |-> cur.s \o Rep(BS, k - 1), colon |-> FALSE]), rules)
           [] nx = CR /\ i + k + 1 <= Len(t) /\ t[i + k + 1] = NL ->
                Scan(t, i + k + 2, EmptyTok, Push(toks, [s |-> cur.s \o Rep(BS, k - 1), colon |-> FALSE]), rules)
           [] nx = DOLLAR /\ i + k + 1 <= Len(t) /\ t[i + k + 1] = DOLLAR ->
                Scan(t, i + k + 2, [s |-> cur.s \o Rep(BS, k) \o <<DOLLAR>>, colon |-> FALSE], toks, rules)
           [] OTHER -> IF i + k > Len(t) THEN Scan(t, i + k, [s |-> cur.s \o Rep(BS, k), colon |-> FALSE], toks, rules)
                       ELSE Scan(t, i + k + 1, [s |-> cur.s \o Rep(BS, k) \o <<nx>>, colon |-> FALSE], toks, rules)
    ELSE IF c = DOLLAR /\ i + 1 <= Len(t) /\ t[i + 1] = DOLLAR THEN Scan(t, i + 2, [s |-> Append(cur.s, DOLLAR), colon |-> FALSE], toks, rules)
    ELSE IF c = NL \/ (c = CR /\ i + 1 <= Len(t) /\ t[i + 1] = NL) THEN
      LET tk == Push(toks, cur) IN
      Scan(t, IF c = CR THEN i + 2 ELSE i + 1, EmptyTok, <<>>, IF tk = <<>> THEN rules ELSE Append(rules, tk))
    ELSE IF c \in {SP, TAB} THEN Scan(t, i + 1, EmptyTok, Push(toks, cur), rules)
    ELSE Scan(t, i + 1, [s |-> Append(cur.s, c), colon |-> c = COLON], toks, rules)

\* Second pass: targets / dependencies of every rule, then the whole file.
Strip(tok) == IF tok.colon THEN SubSeq(tok.s, 1, Len(tok.s) - 1) ELSE tok.s
FirstColon(tk) == IF \E i \in DOMAIN tk : tk[i].colon THEN CHOOSE i \in DOMAIN tk : tk[i].colon /\ \A j \in 1..(i - 1) : ~tk[j].colon ELSE 0
RuleOf(tk) == LET c == FirstColon(tk) IN
              [ok |-> c # 0,
               t |-> SelectSeq([i \in 1..c |-> Strip(tk[i])], LAMBDA s : s # <<>>),
               d |-> SelectSeq([i \in 1..(Len(tk) - c) |-> Strip(tk[c + i])], LAMBDA s : s # <<>>)]
RECURSIVE Uniq(_, _, _)
Uniq(q, k, acc) == IF k > Len(q) THEN acc ELSE Uniq(q, k + 1, IF \E j \in DOMAIN acc : acc[j] = q[k] THEN acc ELSE Append(acc, q[k]))
\* Decode: [ok, outs, ins].  Rules are read in order: a target that was already read as a
\* dependency is not an output, and if such a rule has dependencies of its own the file is rejected.
In(q, x) == \E j \in DOMAIN q : q[j] = x
RECURSIVE Rules(_, _, _)
Rules(rl, i, acc) ==
  IF i > Len(rl) \/ ~acc.ok THEN acc
  ELSE LET r == rl[i]
           seen == \E k \in DOMAIN r.t : In(acc.ins, r.t[k])
       IN IF ~r.ok \/ (seen /\ \E k \in DOMAIN r.d : ~In(acc.ins, r.d[k])) THEN [acc EXCEPT !.ok = FALSE]
          ELSE Rules(rl, i + 1, [ok |-> TRUE,
                                 outs |-> Uniq(acc.outs \o SelectSeq(r.t, LAMBDA o : ~In(acc.ins, o)), 1, <<>>),
                                 ins |-> Uniq(acc.ins \o r.d, 1, <<>>)])
Decode(text) ==
  LET rs == Scan(text, 1, EmptyTok, <<>>, <<>>)
      rl == [i \in DOMAIN rs |-> RuleOf(rs[i])]
      res == Rules(rl, 1, [ok |-> TRUE, outs |-> <<>>, ins |-> <<>>])
  IN IF res.ok THEN res ELSE [ok |-> FALSE, outs |-> <<>>, ins |-> <<>>]

(***************************************************************************)
(* The bounded input space.                                                 *)
(***************************************************************************)
Alpha == {97, SP, BS, HASH, DOLLAR, COLON, 37, 128}
Names1 == {<<a>> : a \in Alpha}
Names2 == Names1 \cup {<<a, b>> : a \in Alpha, b \in Alpha}
Names3 == Names2 \cup {<<a, b, c>> : a \in Alpha, b \in Alpha, c \in Alpha}
T == <<116>>                       \* "t"
LongK == IF "K" \in DOMAIN IOEnv THEN atoi(IOEnv.K) ELSE 20
LongNames == {<<100, 105, 114, 47, 102, 111, 111, 46, 104>>, <<97, SP, 98, SP, 99>>, <<BS, BS, 97>>, <<97, BS, SP, 98>>, <<35, 35, 120>>, <<DOLLAR, 120, DOLLAR>>,
              <<99, COLON, BS, 120>>, <<37, 120, 37>>, <<128, 255, 200>>, <<120, BS, BS, SP, 121>>, <<45, 43, 61, 64, 126>>, <<40, 41, 91, 93, 123, 125>>, <<97>>, <<98>>, <<99, 99>>}
Layouts == {"one", "cont", "trail", "crlf"}
Dialects == {"gcc10", "old"}

\* rule lists of the family
Inputs(which) ==
  CASE which = "dep3" -> {<<[t |-> <<T>>, d |-> <<n>>]>> : n \in Names3}                       \* one hostile dependency
    [] which = "dep22" -> {<<[t |-> <<T>>, d |-> <<n, m>>]>> : n \in Names2, m \in Names2}       \* two
    [] which = "dep111" -> {<<[t |-> <<T>>, d |-> <<a, b, c>>]>> : a \in Names1, b \in Names1, c \in Names1}
    [] which = "tgt2" -> {<<[t |-> <<n>>, d |-> <<<<97>>, <<98>>>>]>> : n \in Names2}            \* hostile target
    [] which = "rules" -> {<<[t |-> <<T>>, d |-> <<n>>], [t |-> <<T>>, d |-> <<m>>]>> : n \in Names2, m \in Names1}
    \* long dependency lists over longer names (printable ASCII, high bytes, the special characters inside)
    [] which = "long" -> {<<[t |-> <<T, <<116, 50>>>>, d |-> q]>> : q \in RandomSubset(LongK, [1..24 -> LongNames])}
    \* the two rejection rules, and their accepted neighbours
    [] which = "reject" -> {<<[t |-> <<T>>, d |-> <<n>>], [t |-> <<n>>, d |-> dd]>> : n \in {<<97>>, <<98, SP, 98>>}, dd \in {<<>>, <<<<99>>>>, <<<<97>>>>}}
                           \* several targets before the colon: the reappearing name first, in the middle, last; a third rule
                           \cup {<<[t |-> <<T>>, d |-> <<<<97>>, <<100>>>>], [t |-> tt, d |-> dd]>> :
                                   tt \in {<<<<97>>, <<120>>>>, <<<<120>>, <<97>>>>, <<<<120>>, <<97>>, <<121>>>>, <<<<120>>, <<121>>>>}, dd \in {<<>>, <<<<99>>>>, <<<<100>>>>, <<<<100>>, <<99>>>>}}
                           \cup {<<[t |-> <<T>>, d |-> <<<<97>>>>], [t |-> <<<<120>>>>, d |-> <<<<98>>>>], [t |-> tt, d |-> <<<<99>>>>]>> :
                                   tt \in {<<<<97>>, <<121>>>>, <<<<98>>, <<121>>>>, <<<<121>>, <<98>>>>, <<<<121>>>>}}

Expected(rules) ==
  [ok |-> TRUE,
   outs |-> Uniq(Cat([i \in DOMAIN rules |-> rules[i].t], 1), 1, <<>>),
   ins |-> Uniq(Cat([i \in DOMAIN rules |-> rules[i].d], 1), 1, <<>>)]
\* the model's inputs never make a dependency a target
Meaning(rules) ==
  IF \E i \in DOMAIN rules : \E j \in 1..(i - 1) : \E a \in DOMAIN rules[i].t : In(rules[j].d, rules[i].t[a]) /\ \E b \in DOMAIN rules[i].d : \A jj \in 1..(i - 1) : ~In(rules[jj].d, rules[i].d[b])
  THEN [ok |-> FALSE, outs |-> <<>>, ins |-> <<>>]
  ELSE [ok |-> TRUE,
        outs |-> Uniq(Cat([i \in DOMAIN rules |-> SelectSeq(rules[i].t, LAMBDA o : \A j \in 1..(i - 1) : ~In(rules[j].d, o))], 1), 1, <<>>),
        ins |-> Expected(rules).ins]

\* all (text, meaning) pairs of a family, and the texts that are ambiguous
Pairs(which) == {[text |-> Encode(r, lay, dia), mean |-> Meaning(r)] : r \in Inputs(which), lay \in Layouts, dia \in Dialects}
Ambiguous(P) == {p.text : p \in {q \in P : \E q2 \in P : q2.text = q.text /\ q2.mean # q.mean}}

(***************************************************************************)
(* Model checking: one state per (rules, layout, dialect).                  *)
(***************************************************************************)
NoColonTexts == {<<97, SP, 98, NL>>, <<97, NL>>, <<97, BS, COLON, 98, NL>>, <<BS, NL, 97, NL>>}
CONSTANT Which
VARIABLE x
Init == x \in Inputs(Which) \X Layouts \X Dialects
Next == UNCHANGED x
Spec == Init /\ [][Next]_x
\* The fragment on which the dialect is injective, structurally: no name ends with a backslash
\* or a colon (a separator follows), and in the non-escaping dialect no name contains
\* backslash-colon (the escaping dialect writes ':' that way).  The check driver computes the
\* real collisions (two rule lists, one text) over the union of the exported families and
\* verifies that they all lie outside this fragment.
NameOK(n, dia) == /\ n[Len(n)] \notin {BS, COLON}
                  /\ (dia = "old" => \A i \in 1..(Len(n) - 1) : ~(n[i] = BS /\ n[i + 1] = COLON))
InFragment(rules, dia) == \A i \in DOMAIN rules : (\A k \in DOMAIN rules[i].t : NameOK(rules[i].t[k], dia)) /\ (\A k \in DOMAIN rules[i].d : NameOK(rules[i].d[k], dia))
NoColonRejected == \A t \in NoColonTexts : ~Decode(t).ok
RoundTrip == InFragment(x[1], x[3]) => Decode(Encode(x[1], x[2], x[3])) = Meaning(x[1])

ExpWhich == IF "WHICH" \in DOMAIN IOEnv THEN IOEnv.WHICH ELSE ""
ASSUME ExpWhich = "" \/
  ndJsonSerialize(IOEnv.OUT, SetToSeq({[in |-> Encode(r, lay, dia), exp |-> Meaning(r), frag |-> InFragment(r, dia)] :
                                           r \in Inputs(ExpWhich), lay \in Layouts, dia \in Dialects}
                                      \cup (IF ExpWhich = "reject" THEN {[in |-> t, exp |-> [ok |-> FALSE, outs |-> <<>>, ins |-> <<>>], frag |-> TRUE] : t \in NoColonTexts} ELSE {})))
=============================================================================
