--------------------------- MODULE ImplDynTrace ---------------------------
(***************************************************************************)
(* Strict (Impl-level) conformance of the *dynamic* part of NinjaImplMC -   *)
(* ready queue, pools (Schedule / Retrieve), the build loop (start before   *)
(* reap), FinishCommand with restat pruning (CleanNode), failure budget,    *)
(* how the loop ends - with the real Plan / Builder: every recorded         *)
(* invocation is replayed step by step on the model's invocation state.     *)
(*   Loaded   the model's world (disk mtimes, logs, depfiles) is set from   *)
(*            the recorded tree and the loaded logs;                        *)
(*   Scanned  the model's Invoke action (scan, want map, initial schedule); *)
(*   Start    the statement must be in the model's ready set (after the     *)
(*            model finished the phony statements it had ready), -j and the *)
(*            failure budget must allow it, and the set of running          *)
(*            statements must be the code's;                                *)
(*   Done     the model must be unable to start anything (the loop reaps    *)
(*            only then); success: restat pruning from the observed output  *)
(*            times; failure: pool release;                                 *)
(*   Exit     the model's loop must have ended the same way.                *)
(* This is what carries the design-level results of NinjaImplMC (C03-C06    *)
(* invariants, NoIdle, Termination) over to the code.  A disagreement is    *)
(* transcription drift (information, exit 2 on the unchanged tree), never a *)
(* property violation.  Not replayed: dyndep graphs, cyclic graphs, dry     *)
(* runs, interrupts, crashes, edits while running.                          *)
(***************************************************************************)
EXTENDS NinjaImplMC

Tr == ndJsonDeserialize(IOEnv.TRACE)
VARIABLES l, inv, on, res
tvars == <<l, inv, on, res>>
E == Tr[l]

NoInv == [active |-> FALSE]
TInit == /\ l = 1 /\ inv = NoInv /\ on = FALSE /\ res = [checked |-> 0, steps |-> 0, agree |-> 0, bad |-> {}]
         /\ raw = [srcs |-> <<>>, pools |-> <<>>, stmts |-> <<>>] /\ vers = <<>>
         /\ disk = [x \in {} |-> 0] /\ clock = 1 /\ blog = [x \in {} |-> 0] /\ dlog = [x \in {} |-> 0] /\ dfile = {}
         /\ L = <<>> /\ F = {} /\ pc = "idle" /\ iv = Iv0 /\ ninv = 0 /\ nenv = 0 /\ kf = FALSE /\ last = [ok |-> FALSE, targets |-> <<>>, crashed |-> FALSE]

RootSeq(gg) == LET RECURSIVE R(_) R(i) == IF i > Len(gg.stmts) THEN <<>> ELSE SelectSeq(gg.stmts[i].outs \o gg.stmts[i].iouts, LAMBDA o : o \in RootOuts(gg)) \o R(i + 1) IN R(1)
FnOf(q, key) == [x \in {q[i][key] : i \in DOMAIN q} |-> q[CHOOSE i \in DOMAIN q : q[i][key] = x]]
Dyn(gg) == \E i \in DOMAIN gg.stmts : gg.stmts[i].dd # "" \/ "hsel" \in DOMAIN gg.stmts[i] \/ "split" \in DOMAIN gg.stmts[i]    \* (header-switch statements are Ref-level only)
Bad(what, detail) == IF Cardinality(res.bad) >= 20 THEN res.bad ELSE res.bad \cup {[l |-> l, what |-> what, detail |-> detail]}

\* the model finishes the phony statements the loop takes from the queue before the next command: with Prio, while the
\* top of the queue is phony and the runner has capacity; without, all that are ready (lowest first)
RECURSIVE RunPhony(_, _)
RunPhony(v, fuel) ==
  LET ph == {i \in v.ready : St(g, i).phony} IN
  IF ph = {} \/ fuel = 0 \/ ~Budget(v) \/ ~SlotFree(v) THEN v
  ELSE IF Prio THEN (IF CanStartV(v) /\ St(g, Top(v)).phony THEN RunPhony(StartPhony(v, Top(v)), fuel - 1) ELSE v)
  ELSE RunPhony(StartPhony(v, CHOOSE i \in ph : \A j \in ph : i <= j), fuel - 1)

Keep == UNCHANGED <<raw, vers, disk, clock, blog, dlog, dfile, L, F, pc, iv, ninv, nenv, kf, last>>
KeepW == UNCHANGED <<vers, clock, F, ninv, nenv, kf, last>>

TStep ==
  /\ l <= Len(Tr)
  /\ l' = l + 1
  /\ CASE E.e \in {"Reset", "Env", "Clean"} ->
            /\ raw' = E.g /\ vers' = [i \in DOMAIN E.g.stmts |-> 1] /\ inv' = NoInv /\ on' = FALSE
            /\ UNCHANGED <<disk, clock, blog, dlog, dfile, L, F, pc, iv, ninv, nenv, kf, last, res>>
       [] E.e = "Invoke" ->
            /\ inv' = [active |-> TRUE, targets |-> E.targets, tree |-> E.tree, j |-> E.j, k |-> E.k, tok |-> E.tok,
                       plain |-> ~E.dry /\ E.intr < 0 /\ ~E.editrun /\ ("crash" \notin DOMAIN E \/ E.crash = "")]
            /\ on' = FALSE /\ Keep /\ UNCHANGED res
       \* the model's world := the recorded world
       [] E.e = "Loaded" /\ inv.active ->
            LET TT == inv.tree
                files == Files(g, TT) \cup UNION {ToS(E.dlog[k].d) : k \in DOMAIN E.dlog} \cup {E.dlog[k].o : k \in DOMAIN E.dlog}
                bl == {k \in DOMAIN E.blog : Prod(g, E.blog[k].o) # 0}
            IN /\ disk' = [f \in files |-> [m |-> Mt(TT, f), c |-> Ct(TT, f)]]
               /\ blog' = [o \in {E.blog[k].o : k \in bl} |-> LET b == FnOf(E.blog, "o")[o] IN [m |-> b.m, vs |-> IF b.cur THEN St(g, Prod(g, o)).vstr ELSE "-stale-"]]
               /\ dlog' = [o \in {E.dlog[k].o : k \in DOMAIN E.dlog} |-> LET d == FnOf(E.dlog, "o")[o] IN [m |-> d.m, d |-> d.d]]
               /\ dfile' = {i \in Ids(g) : St(g, i).deps = "depfile" /\ Exists(TT, DepfilePath(St(g, i)))}
               /\ L' = [i \in Ids(g) |-> LastNone]
               /\ pc' = "idle" /\ iv' = Iv0
               /\ UNCHANGED <<raw, inv, on, res>> /\ KeepW
       \* scan + plan + initial schedule: the model's Invoke action itself
       [] E.e = "Scanned" /\ inv.active /\ inv.plain /\ ~Dyn(g) /\ AcyclicN(g, inv.tree, [i \in Ids(g) |-> LastNone], Ids(g)) /\ ninv < MaxInv ->
            /\ Invoke(IF inv.targets = <<>> THEN RootSeq(g) ELSE inv.targets, inv.j, inv.k, IF inv.tok < 0 THEN 99 ELSE inv.tok)
            /\ on' = TRUE /\ res' = [res EXCEPT !.checked = @ + 1] /\ UNCHANGED inv
       [] E.e = "Start" /\ on ->
            LET v == RunPhony(iv, Fuel)
                i == E.s
                ok == pc = "build" /\ Budget(v) /\ i \in v.ready /\ (IF v.js >= 0 THEN SlotFree(v) ELSE Cardinality(v.running) < v.j)
                prioOK == ~Prio \/ ~ok \/ i = Top(v)
                v2 == StartCmd(v, i, Missing("-"), E.t)
                \* same commands running, and (jobserver) the same number of tokens left in the pool
                runOK == {r.i : r \in v2.running} = ToS(E.run) /\ (v.js >= 0 => v2.free = E.fifo)
            IN /\ iv' = v2
               /\ res' = [res EXCEPT !.steps = @ + 1, !.agree = @ + (IF ok /\ runOK /\ prioOK THEN 1 ELSE 0),
                                     !.bad = IF ~prioOK THEN Bad("the code started a ready statement that is not the top of the model's priority queue", ToString(<<i, Top(v), v.ready, v.prio>>))
                                             ELSE IF ~ok THEN Bad("the code started a statement the model does not have ready (or over -j / the failure budget)", ToString(<<i, v.ready, v.delayed, v.running>>))
                                             ELSE IF ~runOK THEN Bad("running sets (or tokens left in the jobserver pool) differ", ToString(<<v2.running, E.run, v2.free, E.fifo>>)) ELSE @]
               /\ UNCHANGED <<raw, disk, blog, dlog, dfile, L, pc, inv, on>> /\ KeepW
       [] E.e = "Done" /\ on ->
            LET v == RunPhony(iv, Fuel)
                rs == {r \in v.running : r.i = E.s}
                idle == CanStartV(v)        \* the loop reaps only when it cannot start anything
            IN IF rs = {} THEN /\ res' = [res EXCEPT !.steps = @ + 1, !.bad = Bad("the code finished a statement the model does not have running", ToString(E.s))]
                               /\ on' = FALSE /\ UNCHANGED <<raw, disk, blog, dlog, dfile, L, pc, iv, inv>> /\ KeepW
               ELSE LET r == CHOOSE x \in rs : TRUE
                        wr == FnOf(E.wrote, "n")
                        nm == [o \in DOMAIN v.st.nmt |-> IF o \in DOMAIN wr THEN wr[o].m ELSE v.st.nmt[o]]
                        v2 == IF E.code = 0 THEN FinishSucc(v, r, CleanedOuts(v, E.s, nm)) ELSE FinishFail(v, r)
                    IN /\ iv' = v2
                       /\ res' = [res EXCEPT !.steps = @ + 1, !.agree = @ + (IF ~idle THEN 1 ELSE 0),
                                             !.bad = IF idle THEN Bad("the code reaped a command while the model can still start one", ToString(<<v.ready, v.running>>)) ELSE @]
                       /\ UNCHANGED <<raw, disk, blog, dlog, dfile, L, pc, inv, on>> /\ KeepW
       [] E.e = "Exit" /\ on ->
            LET v == RunPhony(iv, Fuel)
                ended == pc = "idle" \/ (v.running = {} /\ ~CanStartV(v))
                msg == IF pc = "idle" THEN iv.msg ELSE ExitMsg(v)
                same == CASE msg = "ok" -> E.mc = "ok"
                          [] msg = "nowork" -> E.mc = "nowork"
                          [] msg = "missing" -> E.mc = "missing"
                          [] msg = "failed" -> E.mc = "failed"
                          [] msg = "noprogress" -> E.mc = "noprogress"
                          [] OTHER -> FALSE
                \* endings the model does not have (a command that could not be started, a load error in mid-build, ...)
                modelled == E.mc \in {"ok", "nowork", "missing", "failed", "noprogress", "stuck"}
            IN /\ res' = IF ~modelled THEN res ELSE
                         [res EXCEPT !.steps = @ + 1, !.agree = @ + (IF ended /\ same THEN 1 ELSE 0),
                                     !.bad = IF ~ended THEN Bad("the code left the loop while the model still has work it can do", ToString(<<v.ready, v.running>>))
                                             ELSE IF ~same THEN Bad("the loop ended differently", ToString(<<msg, E.mc>>)) ELSE @]
               /\ on' = FALSE /\ pc' = "idle" /\ inv' = NoInv
               /\ UNCHANGED <<raw, disk, blog, dlog, dfile, L, iv>> /\ KeepW
       \* anything the model does not replay ends the replay of this invocation
       [] E.e \in {"Interrupt", "Crash", "Died", "Abnormal", "EditRun", "SpawnFail"} -> on' = FALSE /\ Keep /\ UNCHANGED <<inv, res>>
       [] OTHER -> Keep /\ UNCHANGED <<inv, on, res>>

TFlush == /\ l = Len(Tr) + 1
          /\ ndJsonSerialize(IOEnv.VIOL, <<[stats |-> [checked |-> res.checked, steps |-> res.steps, agree |-> res.agree], bad |-> SetToSeq(res.bad)]>>)
          /\ l' = l + 1 /\ Keep /\ UNCHANGED <<inv, on, res>>
TSpec == TInit /\ [][TStep \/ TFlush]_<<vars, tvars>>
TraceAccepted == TLCGet("stats").diameter = Len(Tr) + 2
=============================================================================
