INIT Init
NEXT Next
