----------------------------- MODULE CanonRef ------------------------------
(***************************************************************************)
(* C14.  Reference path normalisation on byte sequences, the laws of the   *)
(* property, and an independent characterisation of "lexically equal"      *)
(* (one-step rewrites: drop a '.' component, drop an empty component, drop *)
(* a resolvable 'x/..' pair).                                               *)
(*                                                                         *)
(* Three uses (configs):                                                   *)
(*  MC_CanonPath  TLC enumerates every string over the alphabet up to MaxLen *)
(*                (one state per string) and checks the laws on the          *)
(*                reference in every state;                                  *)
(*  export        (ASSUME, EXP=1) writes (input, Canon(input)) for every     *)
(*                string up to ExpLen: one implementation test each;         *)
(*  trace         CanonTrace.tla validates recorded calls of the real        *)
(*                function (random long paths, arbitrary bytes).             *)
(***************************************************************************)
EXTENDS Naturals, Sequences, SequencesExt, FiniteSets, TLC, Json, IOUtils

Sep == 47
Dot == 46
DotC == <<Dot>>
DotDot == <<Dot, Dot>>

\* components of p[from..Len(p)], split at the separators (no recursion on the
\* characters: trace validation feeds paths of a few thousand bytes)
Split(p, from, unused) ==
  LET pos == SetToSortSeq({i \in from..Len(p) : p[i] = Sep}, LAMBDA a, b : a < b)
      n == Len(pos)
      lo(k) == IF k = 1 THEN from ELSE pos[k - 1] + 1
      hi(k) == IF k = n + 1 THEN Len(p) ELSE pos[k] - 1
  IN [k \in 1..(n + 1) |-> SubSeq(p, lo(k), hi(k))]

IsAbs(p) == Len(p) > 0 /\ p[1] = Sep
\* components after the leading separator of an absolute path
Comps(p) == IF IsAbs(p) THEN Split(p, 2, <<>>) ELSE Split(p, 1, <<>>)

Normal(c) == c # <<>> /\ c # DotC /\ c # DotDot

RECURSIVE Norm(_, _, _)
Norm(cs, i, acc) ==
  IF i > Len(cs) THEN acc
  ELSE LET c == cs[i] IN
       IF c = <<>> \/ c = DotC THEN Norm(cs, i + 1, acc)
       ELSE IF c = DotDot /\ Len(acc) > 0 /\ acc[Len(acc)] # DotDot
            THEN Norm(cs, i + 1, SubSeq(acc, 1, Len(acc) - 1))
            ELSE Norm(cs, i + 1, Append(acc, c))

RECURSIVE Join(_, _)
Join(cs, i) == IF i > Len(cs) THEN <<>>
               ELSE IF i = Len(cs) THEN cs[i] ELSE cs[i] \o <<Sep>> \o Join(cs, i + 1)

\* string of (absolute?, component list)
\* a relative path cannot begin with an empty component: they are dropped with
\* the component that preceded them
RECURSIVE Lead(_)
Lead(cs) == IF cs # <<>> /\ cs[1] = <<>> THEN Lead(Tail(cs)) ELSE cs
Str(abs, cs) == IF abs THEN <<Sep>> \o Join(cs, 1)
                ELSE IF Join(Lead(cs), 1) = <<>> THEN DotC ELSE Join(Lead(cs), 1)

Canon(p) == IF p = <<>> THEN <<>> ELSE Str(IsAbs(p), Norm(Comps(p), 1, <<>>))

(***************************************************************************)
(* Lexical equality, independently: single rewrite steps on the component   *)
(* list.                                                                     *)
(***************************************************************************)
Del(cs, i) == SubSeq(cs, 1, i - 1) \o SubSeq(cs, i + 1, Len(cs))
Steps(p) ==
  LET cs == Comps(p)  abs == IsAbs(p) IN
  {Str(abs, Del(cs, i)) : i \in {j \in DOMAIN cs : cs[j] = <<>> \/ cs[j] = DotC}}
  \cup {Str(abs, Del(Del(cs, i), i)) : i \in {j \in 1..(Len(cs) - 1) : Normal(cs[j]) /\ cs[j + 1] = DotDot}}

Irreducible(p) == Steps(p) \subseteq {p}

RECURSIVE Reduce(_, _)
Reduce(p, fuel) == LET S == Steps(p) \ {p} IN
                   IF S = {} \/ fuel = 0 THEN p ELSE Reduce(CHOOSE q \in S : TRUE, fuel - 1)

LeadingUp(cs) == LET k == {i \in 0..Len(cs) : \A j \in 1..i : cs[j] = DotDot} IN CHOOSE m \in k : \A x \in k : x <= m

Laws(p) ==
  LET c == Canon(p) IN
  /\ Canon(c) = c                                   \* idempotent
  /\ Len(c) <= Len(p)                               \* never longer
  /\ IsAbs(c) = IsAbs(p)                            \* leading '/' kept, none invented
  /\ (p # <<>> => c # <<>>)                         \* nothing resolves to the empty string
  /\ \A q \in Steps(p) : p = <<>> \/ Canon(q) = c   \* lexically equal spellings agree
  /\ (p # <<>> => Reduce(p, Len(p) + 2) = c)        \* and the canonical form is one of them
  /\ (p # <<>> => Irreducible(c))
  \* unresolvable leading '..' components survive, and only they
  /\ (p # <<>> => LET cc == Comps(c) IN \A i \in DOMAIN cc : cc[i] = DotDot => i <= LeadingUp(cc))
=============================================================================
