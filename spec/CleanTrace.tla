----------------------------- MODULE CleanTrace -----------------------------
(***************************************************************************)
(* Conformance of the design-level model of the cleaner (Clean.tla) with    *)
(* the real Cleaner: ImplClean applied to the recorded state of every Clean *)
(* event of the harness (graph, files that existed, build-log paths, scope, *)
(* -g, -n) must give the set of files that disappeared and the count the    *)
(* tool reported.  Disagreement is transcription drift (information).       *)
(***************************************************************************)
EXTENDS Clean

Tr == ndJsonDeserialize(IOEnv.TRACE)
VARIABLES l, res
TInit == l = 1 /\ res = [checked |-> 0, agree |-> 0, bad |-> {}] /\ gr = [srcs |-> <<>>, pools |-> <<>>, stmts |-> <<>>] /\ ex = {} /\ logged = {} /\ ev = [mode |-> ""]
TStep ==
  /\ l <= Len(Tr) /\ l' = l + 1
  /\ LET E == Tr[l] IN
     IF E.e = "Clean" /\ E.done.status >= 0
     THEN LET here == Names(E.pre)
              lg == {E.logs.blog[k].o : k \in DOMAIN E.logs.blog}
              r == ImplClean(E.g, here, [mode |-> E.mode, args |-> E.args, gflag |-> E.gflag, n |-> E.n], lg)
              same == r.c.gone = ToS(E.removed) /\ r.c.count = E.done.count
          IN res' = [res EXCEPT !.checked = @ + 1, !.agree = @ + (IF same THEN 1 ELSE 0),
                                !.bad = IF same \/ Cardinality(@) >= 5 THEN @ ELSE @ \cup {[l |-> l, model |-> r.c.gone, code |-> ToS(E.removed), mcount |-> r.c.count, ccount |-> E.done.count]}]
     ELSE UNCHANGED res
  /\ UNCHANGED vars
TFlush == /\ l = Len(Tr) + 1 /\ l' = l + 1
          /\ ndJsonSerialize(IOEnv.VIOL, <<[stats |-> [checked |-> res.checked, agree |-> res.agree], bad |-> SetToSeq(res.bad)]>>)
          /\ UNCHANGED <<vars, res>>
TSpec == TInit /\ [][TStep \/ TFlush]_<<vars, l, res>>
TraceAccepted == TLCGet("stats").diameter = Len(Tr) + 2
=============================================================================
