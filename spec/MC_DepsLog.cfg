SPECIFICATION Spec
CONSTANT MaxOps = 5
INVARIANT TableIsHistory
INVARIANT ReloadAgrees
CHECK_DEADLOCK FALSE
