----------------------------- MODULE CycleTrace -----------------------------
(***************************************************************************)
(* Conformance of Cycle.tla with the real dependency scan: for the first    *)
(* invocation of every recorded execution (fresh tree, nothing recorded,    *)
(* no dyndep) with explicit targets the model must print exactly the cycle  *)
(* the code printed, or none if the code printed none.                      *)
(***************************************************************************)
EXTENDS Cycle
Tr == ndJsonDeserialize(IOEnv.TRACE)
VARIABLES l, cur, res
tv == <<l, cur, res>>
NoCur == [on |-> FALSE]
TInit == l = 1 /\ cur = NoCur /\ res = [checked |-> 0, agree |-> 0, cyclic |-> 0, bad |-> {}] /\ gr = [srcs |-> <<>>, pools |-> <<>>, stmts |-> <<>>] /\ tg = <<>>
TStep ==
  /\ l <= Len(Tr) /\ l' = l + 1
  /\ LET E == Tr[l] IN
     CASE E.e = "Reset" -> gr' = E.g /\ cur' = [on |-> TRUE, targets |-> <<>>] /\ UNCHANGED <<tg, res>>
       [] E.e = "Invoke" /\ cur.on -> cur' = [on |-> TRUE, targets |-> E.targets, dry |-> E.dry] /\ UNCHANGED <<gr, tg, res>>
       [] E.e = "Exit" /\ cur.on ->
            /\ cur' = NoCur /\ UNCHANGED <<gr, tg>>
            /\ IF cur.targets = <<>> \/ ~Plain(gr) \/ E.mc \in {"missing", "parse", "other"} THEN UNCHANGED res
               ELSE LET p == Scan(gr, cur.targets)
                        same == IF p = <<>> THEN E.mc # "cycle" ELSE E.mc = "cycle" /\ E.cyc = p
                    IN res' = [res EXCEPT !.checked = @ + 1, !.agree = @ + (IF same THEN 1 ELSE 0), !.cyclic = @ + (IF p # <<>> THEN 1 ELSE 0),
                                          !.bad = IF same \/ Cardinality(@) >= 5 THEN @ ELSE @ \cup {[l |-> l, model |-> p, code |-> E.cyc, mc |-> E.mc]}]
       [] E.e \in {"Env", "Clean", "Died", "Abnormal", "Crash"} -> cur' = NoCur /\ UNCHANGED <<gr, tg, res>>
       [] OTHER -> UNCHANGED <<gr, tg, cur, res>>
TFlush == /\ l = Len(Tr) + 1 /\ l' = l + 1
          /\ ndJsonSerialize(IOEnv.VIOL, <<[stats |-> [checked |-> res.checked, agree |-> res.agree, cyclic |-> res.cyclic], bad |-> SetToSeq(res.bad)]>>)
          /\ UNCHANGED <<gr, tg, cur, res>>
TSpec == TInit /\ [][TStep \/ TFlush]_<<vars, tv>>
TraceAccepted == TLCGet("stats").diameter = Len(Tr) + 2
=============================================================================
