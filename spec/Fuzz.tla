------------------------------- MODULE Fuzz -------------------------------
(***************************************************************************)
(* C13.  The bounded input spaces for "no file content can crash, corrupt   *)
(* or hang ninja": for every input format a token alphabet (tokens are byte *)
(* strings, taken from the formats' grammars in Manifest.tla, Depfile.tla,  *)
(* BuildLogRef.tla, DepsLogRef.tla and the dyndep / MAKEFLAGS / status      *)
(* format syntaxes) and the maximal number of tokens.  The input space of a *)
(* format is every concatenation of at most MaxTokens tokens; TLC exports   *)
(* the alphabets, the harness (harness/c13.cc, ASan+UBSan build of the real *)
(* parsers and loaders, one watchdog per input) enumerates the space and    *)
(* reports every input on which the process dies, aborts, overflows its     *)
(* stack or hangs.  Memory safety itself is not expressible in TLA+; the    *)
(* verdict "processed or reported an error" is observed, not modelled.      *)
(***************************************************************************)
EXTENDS Naturals, Sequences, TLC, Json, IOUtils

B(s) == s   \* tokens given as strings are exported as strings; binary tokens as byte lists

Formats == [
  manifest |-> [max |-> 4, tokens |-> <<"build ", "rule ", "pool ", "default ", "include ", "subninja ", "a", "x", " ", "  ", "=", ":", "|", "||", "|@", "$", "${", "}", "\n",
                                        "\t", "#", "inc", "build.ninja", "$\n", "depth", "command", "phony", "$ ", "$:", "$$", ".", "\r\n", "$^", "ninja_required_version = 1.14\n">>],
  rulevars |-> [max |-> 6, tokens |-> <<"$command ", "$rspfile_content ", "$description ", "$x ", "$undefined ", "$y ", "text ", "|", "$in ", "$out">>],
  dyndep   |-> [max |-> 5, tokens |-> <<"ninja_dyndep_version", "=", "1", "build ", "out", "o2", ":", "dyndep", "|", "||", " ", "  restat", "\n", "$", "x", "zz", "1.1", "\r\n">>],
  depfile  |-> [max |-> 6, tokens |-> <<"a", " ", "\\", ":", "#", "$", "\n", "\r", "%", "\t", <<128>>, <<0>>>>],
  depload  |-> [max |-> 6, tokens |-> <<"a", " ", "\\", ":", "#", "$", "\n", "b", "a.d", <<0>>>>],
  cl       |-> [max |-> 5, tokens |-> <<"Note: including file: ", "a.h", "\n", "\r", " ", "x.cc", "Program Files", ":", "\\">>],
  makeflags |-> [max |-> 6, tokens |-> <<"--jobserver-auth=", "--jobserver-fds=", "fifo:", "3", ",", "-", "n", " ", "\t", "j", "x", "/", "--", "=">>],
  status   |-> [max |-> 5, tokens |-> <<"%", "s", "t", "p", "r", "u", "f", "o", "c", "e", "w", "E", "W", "P", "x", "[", "/", " ", "\n", <<27>>, "[K">>],
  \* what the real file reader (util.cc ReadFile behind RealDiskInterface) is pointed at: a directory, nothing, an empty file,
  \* a small one, one just over the 64 KiB read block; as a file read directly and as the target of an `include`
  readfile |-> [max |-> 2, tokens |-> <<"dir", "missing", "empty", "small", "blk", "inc:">>],
  buildlog |-> [max |-> 6, tokens |-> <<"# ninja log v7\n", "# ninja log v6\n", "# ninja log v", "1", "\t", "\n", "a", "f", "-", " ", "9999999999999999999999", "# ninja log v8\n", <<0>>>>],
  depslog  |-> [max |-> 5, tokens |-> << <<8, 0, 0, 0>>, <<12, 0, 0, 128>>, <<4, 0, 0, 128>>, <<8, 0, 0, 128>>, <<16, 0, 0, 128>>, <<5, 0, 0, 0>>, <<4, 0, 0, 0>>, <<0, 0, 0, 0>>,
                                         <<255, 255, 255, 255>>, <<254, 255, 255, 255>>, <<97, 0, 0, 0>>, <<0>>, <<97, 98>>, <<1, 0, 0, 0>>, <<255, 255, 255, 127>>, <<0, 0, 8, 0>>, <<7, 0, 0, 0>>, <<0, 0, 0>> >>]
]

VARIABLE x
Init == x = 0
Next == UNCHANGED x
ASSUME "OUT" \notin DOMAIN IOEnv \/ ndJsonSerialize(IOEnv.OUT, <<Formats>>)
=============================================================================
