--------------------------- MODULE BuildLogTrace ---------------------------
(***************************************************************************)
(* C08, code -> spec: operation sequences executed on the real BuildLog     *)
(* with real files (harness/logh.cc) are validated against BuildLogRef.     *)
(* Alarm level (p = "C08"): the table the real class holds after a load     *)
(* must satisfy Safe / Complete / Exact with respect to the ghost history,  *)
(* recompaction and restat must produce exactly the expected tables, an     *)
(* unsupported version must be discarded without error.  Impl level         *)
(* (p = "IMPL", information only): bytes on disk equal the writer model,    *)
(* loaded table equals Loaded(bytes).                                       *)
(***************************************************************************)
EXTENDS BuildLogRef, Json, IOUtils
Tr == ndJsonDeserialize(IOEnv.TRACE)

VARIABLES l, exists, file, gh, mem, viol, stats, id
vars == <<l, exists, file, gh, mem, viol, stats, id>>
E == Tr[l]
Is(name) == l <= Len(Tr) /\ E.e = name
V(p, what) == [p |-> p, sc |-> id, run |-> 0, l |-> l, what |-> what, kf |-> ""]

Init == l = 1 /\ exists = FALSE /\ file = <<>> /\ gh = Ghost0 /\ mem = EmptyTab /\ viol = {} /\ id = 0
        /\ stats = [seqs |-> 0, ops |-> 0, loads |-> 0, tears |-> 0]

TabOf(entries) == [x \in {entries[i].o : i \in DOMAIN entries} |->
                     LET e == entries[CHOOSE i \in DOMAIN entries : entries[i].o = x] IN [m |-> e.m, h |-> e.h, s |-> e.s, t |-> e.t]]
OpenFile(ex, b) == IF ~ex \/ b = <<>> \/ Loaded(ex, b).removed THEN Header ELSE b
AllDead(g) == [g EXCEPT !.recs = [k \in DOMAIN g.recs |-> [g.recs[k] EXCEPT !.alive = FALSE]]]

\* checks of a table obtained by loading bytes b (file existed: ex) under ghost g
LoadChecks(tab, ex, b, g) ==
  LET ld == Loaded(ex, b)
      g2 == IF ld.removed THEN AllDead(g) ELSE g
  IN (IF ~Safe(tab, g2) THEN {V("C08", "loaded entry carries a recorded hash with data that was never recorded for that output (could look up to date)")} ELSE {})
     \cup (IF ~Complete(tab, g2) THEN {V("C08", "a completely written record is not what the loaded table says (and the entry does not look out of date)")} ELSE {})
     \cup (IF ~Complete(tab, g2) /\ "DEBUG" \in DOMAIN IOEnv THEN {V("DEBUG", ToString(<<CompleteBad(tab, g2), [o \in CompleteBad(tab, g2) |-> <<LastAlive(g2.recs, o), IF o \in DOMAIN tab THEN tab[o] ELSE "none">>]>>))} ELSE {})
     \cup (IF ~g2.merged /\ ~Exact(tab, g2) THEN {V("C08", "loaded table differs from last-wins over the completely written records")} ELSE {})
     \cup (IF tab # ld.tab THEN {V("IMPL", "loaded table differs from BuildLogRef!Loaded(bytes)")} ELSE {})

TReset == /\ Is("Reset")
          /\ exists' = FALSE /\ file' = <<>> /\ gh' = Ghost0 /\ mem' = EmptyTab /\ id' = E.id
          /\ stats' = [stats EXCEPT !.seqs = @ + 1] /\ UNCHANGED viol /\ l' = l + 1

TOp ==
  /\ Is("LogOp")
  /\ LET tab == TabOf(E.entries) IN
     CASE E.op = "rec" ->
            LET b0 == OpenFile(exists, file)
                g0 == IF exists /\ file # <<>> /\ Loaded(exists, file).removed THEN AllDead(gh) ELSE gh
                rs == [k \in 1..Len(E.outs) |-> [o |-> E.outs[k], m |-> E.m, h |-> E.h, s |-> E.s, t |-> E.t]]
                RECURSIVE Cat(_)
                Cat(k) == IF k > Len(rs) THEN <<>> ELSE Render(rs[k]) \o Cat(k + 1)
                want == (IF DirtyTail(TRUE, b0) THEN b0 \o <<NL>> ELSE b0) \o Cat(1)
                memOK == \A k \in DOMAIN rs : rs[k].o \in DOMAIN tab /\ tab[rs[k].o] = [m |-> E.m, h |-> E.h, s |-> E.s, t |-> E.t]
            \* (record offsets from the bytes actually on disk)
            IN /\ gh' = GhostAppend(g0, rs, 1, Len(E.bytes) - Len(Cat(1)), DirtyTail(TRUE, b0))
               /\ viol' = viol \cup (IF ~E.ok \/ ~memOK THEN {V("C08", "RecordCommand failed or the in-memory entry is not the recorded one")} ELSE {})
                               \cup (IF E.bytes # want THEN {V("IMPL", "bytes on disk after RecordCommand differ from the writer model")} ELSE {})
               /\ stats' = [stats EXCEPT !.ops = @ + 1]
       [] E.op = "reopen" ->
            \* (closing a log whose last line is torn ends that line: from then on the file holds a damaged line)
            /\ gh' = IF Loaded(exists, file).removed THEN AllDead(gh) ELSE [gh EXCEPT !.merged = @ \/ DirtyTail(exists, file)]
            /\ viol' = viol \cup LoadChecks(tab, exists, file, gh)
                            \cup (IF E.status = 0 THEN {V("C08", "loading the log reported an error")} ELSE {})
            /\ stats' = [stats EXCEPT !.ops = @ + 1, !.loads = @ + 1]
       [] E.op = "tear" ->
            LET b == SubSeq(file, 1, E.len)
                g1 == GhostTear(gh, E.len)
            IN /\ gh' = IF Loaded(exists, b).removed THEN AllDead(g1) ELSE [g1 EXCEPT !.merged = @ \/ DirtyTail(exists, b)]     \* (the next open for writing ends the torn line)
               /\ viol' = viol \cup LoadChecks(tab, exists, b, g1)
                               \cup (IF E.status = 0 THEN {V("C08", "loading a torn log reported an error")} ELSE {})
               /\ stats' = [stats EXCEPT !.ops = @ + 1, !.loads = @ + 1, !.tears = @ + 1]
       [] E.op = "recompact" ->
            LET dead == {E.dead[i] : i \in DOMAIN E.dead}
                want == [o \in DOMAIN mem \ dead |-> mem[o]]
            IN /\ gh' = [GhostFromFile(gh, E.bytes) EXCEPT !.merged = FALSE]
               /\ viol' = viol \cup (IF tab # want \/ ~E.ok THEN {V("C08", "recompaction did not keep exactly the latest record of every live output")} ELSE {})
               /\ stats' = [stats EXCEPT !.ops = @ + 1, !.loads = @ + 1]
       [] E.op = "restat" ->
            LET sel == {E.outs[i] : i \in DOMAIN E.outs}
                mt(o) == IF \E i \in DOMAIN E.mt : E.mt[i].o = o THEN E.mt[CHOOSE i \in DOMAIN E.mt : E.mt[i].o = o].m ELSE 0
                want == [o \in DOMAIN mem |-> IF sel = {} \/ o \in sel THEN [mem[o] EXCEPT !.m = mt(o)] ELSE mem[o]]
            IN /\ gh' = [GhostFromFile(gh, E.bytes) EXCEPT !.merged = FALSE]
               /\ viol' = viol \cup (IF tab # want \/ ~E.ok THEN {V("C08", "restat changed something other than the recorded mtimes of the selected outputs")} ELSE {})
               /\ stats' = [stats EXCEPT !.ops = @ + 1, !.loads = @ + 1]
       [] E.op = "version" ->
            /\ gh' = AllDead(gh)
            /\ viol' = viol \cup (IF E.v # CurrentVersion /\ (DOMAIN tab # {} \/ E.exists \/ E.status = 0)
                                  THEN {V("C08", "log of an unsupported version was not discarded cleanly")} ELSE {})
            /\ stats' = [stats EXCEPT !.ops = @ + 1, !.loads = @ + 1]
  /\ mem' = TabOf(E.entries)
  /\ exists' = E.exists /\ file' = E.bytes
  /\ UNCHANGED id /\ l' = l + 1

TCrashed == /\ Is("Crashed")
            /\ viol' = viol \cup {V("C08", "the log class crashed or hung while executing the sequence")}
            /\ UNCHANGED <<exists, file, gh, mem, stats, id>> /\ l' = l + 1
TFlush == /\ l = Len(Tr) + 1
          /\ ndJsonSerialize(IOEnv.VIOL, <<[stats |-> stats, viol |-> SetToSeq(viol)]>>)
          /\ l' = l + 1 /\ UNCHANGED <<exists, file, gh, mem, viol, stats, id>>
Spec == Init /\ [][TReset \/ TOp \/ TCrashed \/ TFlush]_vars
TraceAccepted == TLCGet("stats").diameter = Len(Tr) + 2
=============================================================================
