SPECIFICATION TSpec
POSTCONDITION TraceAccepted
CHECK_DEADLOCK FALSE
