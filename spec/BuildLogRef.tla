---------------------------- MODULE BuildLogRef ----------------------------
(***************************************************************************)
(* C08.  .ninja_log as a byte sequence.                                     *)
(*   Render      the writer: one line per output,                           *)
(*               start TAB end TAB mtime TAB output TAB hex-hash NL         *)
(*   Loaded      the loader as designed: version line, complete lines only, *)
(*               field splitting at the first four TABs, numbers by longest *)
(*               valid prefix, last line per output wins                    *)
(*   ghost / Safe / Complete   the property-level reading: what a table     *)
(*               loaded from the disk may contain, given the history of     *)
(*               records written and tears suffered (written from the       *)
(*               property text: "exactly the completely written records,    *)
(*               last one wins; a damaged or merged line can at worst make  *)
(*               an output look out of date, never up to date").            *)
(* Bytes are integers, names and hashes are byte sequences.                 *)
(***************************************************************************)
EXTENDS Naturals, Sequences, SequencesExt, FiniteSets, TLC

TAB == 9
NL == 10
HeaderPrefix == <<35, 32, 110, 105, 110, 106, 97, 32, 108, 111, 103, 32, 118>>   \* "# ninja log v"
Header == HeaderPrefix \o <<55, NL>>                                              \* current version 7
CurrentVersion == 7

IsDigit(c) == c \in 48..57
IsHex(c) == IsDigit(c) \/ c \in 97..102 \/ c \in 65..70
Lower(c) == IF c \in 65..70 THEN c + 32 ELSE c

RECURSIVE Digits(_)
Digits(n) == IF n < 10 THEN <<48 + n>> ELSE Digits(n \div 10) \o <<48 + (n % 10)>>

\* value of the longest digit prefix (atoi / strtoll on what the log contains), 0 if none
RECURSIVE NumPrefix(_, _, _)
NumPrefix(q, i, acc) == IF i > Len(q) \/ ~IsDigit(q[i]) \/ acc > 99999999 THEN acc ELSE NumPrefix(q, i + 1, acc * 10 + (q[i] - 48))
Num(q) == NumPrefix(q, 1, 0)

\* longest hex prefix, normalised like printf("%llx") of the 64-bit value
HexLen(q) == LET k == {i \in 0..Len(q) : \A j \in 1..i : IsHex(q[j])} IN CHOOSE m \in k : \A x \in k : x <= m
RECURSIVE StripZeros(_)
StripZeros(q) == IF Len(q) > 1 /\ q[1] = 48 THEN StripZeros(Tail(q)) ELSE q
Sixteen(c) == [i \in 1..16 |-> c]
HexNorm(q) == LET p == StripZeros([i \in 1..HexLen(q) |-> Lower(q[i])])
              IN IF p = <<>> THEN <<48>> ELSE IF Len(p) > 16 THEN Sixteen(102) ELSE p

Render(r) == Digits(r.s) \o <<TAB>> \o Digits(r.t) \o <<TAB>> \o Digits(r.m) \o <<TAB>> \o r.o \o <<TAB>> \o r.h \o <<NL>>

\* positions of the newlines; complete lines are the pieces they terminate
NLs(b) == SetToSortSeq({i \in 1..Len(b) : b[i] = NL}, LAMBDA x, y : x < y)
CompleteLines(b) == LET p == NLs(b) IN [k \in 1..Len(p) |-> SubSeq(b, IF k = 1 THEN 1 ELSE p[k - 1] + 1, p[k] - 1)]
\* end offset (position of its NL) of the k-th complete line
LineEnds(b) == NLs(b)
FirstLine(b) == LET p == NLs(b) IN IF Len(p) = 0 THEN b ELSE SubSeq(b, 1, p[1] - 1)

HasPrefix(q, p) == Len(q) >= Len(p) /\ SubSeq(q, 1, Len(p)) = p
VersionOf(b) == LET f == FirstLine(b) IN
                IF HasPrefix(f, HeaderPrefix) THEN Num(SubSeq(f, Len(HeaderPrefix) + 1, Len(f))) ELSE 0

Tabs(line) == SetToSortSeq({i \in 1..Len(line) : line[i] = TAB}, LAMBDA x, y : x < y)
\* a line with at least four TABs is a record
ParseLine(line) ==
  LET t == Tabs(line) IN
  IF Len(t) < 4 THEN [ok |-> FALSE]
  ELSE [ok |-> TRUE,
        s |-> Num(SubSeq(line, 1, t[1] - 1)),
        t |-> Num(SubSeq(line, t[1] + 1, t[2] - 1)),
        m |-> Num(SubSeq(line, t[2] + 1, t[3] - 1)),
        o |-> SubSeq(line, t[3] + 1, t[4] - 1),
        h |-> HexNorm(SubSeq(line, t[4] + 1, Len(line)))]

RECURSIVE Fold(_, _, _)
Fold(lines, k, tab) ==
  IF k > Len(lines) THEN tab
  ELSE LET r == ParseLine(lines[k]) IN
       IF r.ok THEN Fold(lines, k + 1, [x \in DOMAIN tab \cup {r.o} |-> IF x = r.o THEN [m |-> r.m, h |-> r.h, s |-> r.s, t |-> r.t] ELSE tab[x]])
       ELSE Fold(lines, k + 1, tab)
EmptyTab == [x \in {} |-> 0]

\* The loader.  exists = FALSE: no file.  Result: [removed, tab]
Loaded(exists, b) ==
  IF ~exists \/ b = <<>> THEN [removed |-> FALSE, tab |-> EmptyTab]
  ELSE IF VersionOf(b) # CurrentVersion THEN [removed |-> TRUE, tab |-> EmptyTab]
  ELSE [removed |-> FALSE, tab |-> Fold(CompleteLines(b), 1, EmptyTab)]

(***************************************************************************)
(* Property level.  ghost.recs: the record lines written, in file order,    *)
(* each [o, m, h, s, t, end (offset of its NL), alive]; a record is alive    *)
(* when all of its bytes are on disk and it was not appended behind a torn  *)
(* line.  ghost.hist: every (output, mtime, hash) ever recorded (or set by  *)
(* restat).  ghost.hashes: all hashes ever recorded.                        *)
(***************************************************************************)
LastAlive(recs, o) ==
  LET ks == {k \in DOMAIN recs : recs[k].alive /\ recs[k].o = o} IN
  IF ks = {} THEN [has |-> FALSE] ELSE LET k == CHOOSE x \in ks : \A y \in ks : y <= x IN [has |-> TRUE, m |-> recs[k].m, h |-> recs[k].h, s |-> recs[k].s, t |-> recs[k].t]

\* what a loaded table may say, entry by entry
Safe(tab, ghost) ==
  \A o \in DOMAIN tab : tab[o].h \in ghost.hashes => <<o, tab[o].m, tab[o].h>> \in ghost.hist
\* index of the last alive record of o (0 if none)
LastAliveIdx(recs, o) ==
  LET ks == {k \in DOMAIN recs : recs[k].alive /\ recs[k].o = o} IN
  IF ks = {} THEN 0 ELSE CHOOSE x \in ks : \A y \in ks : y <= x
\* The entry of o is its last alive record; or it comes from a later record of o
\* that was torn or merged but whose mtime and hash survived; or it carries a
\* hash that was never recorded (the output looks out of date).
Complete(tab, ghost) ==
  \A o \in {ghost.recs[k].o : k \in DOMAIN ghost.recs} :
     LET la == LastAlive(ghost.recs, o)
         li == LastAliveIdx(ghost.recs, o)
         later == o \in DOMAIN tab /\ \E k \in DOMAIN ghost.recs : k > li /\ ghost.recs[k].o = o
                                         /\ ghost.recs[k].m = tab[o].m /\ ghost.recs[k].h = tab[o].h
     IN IF la.has THEN o \in DOMAIN tab /\ (tab[o] = [m |-> la.m, h |-> la.h, s |-> la.s, t |-> la.t] \/ tab[o].h \notin ghost.hashes \/ later)
        ELSE (o \in DOMAIN tab => (tab[o].h \notin ghost.hashes \/ later))
CompleteBad(tab, ghost) ==
  {o \in {ghost.recs[k].o : k \in DOMAIN ghost.recs} :
     LET la == LastAlive(ghost.recs, o)
         li == LastAliveIdx(ghost.recs, o)
         later == o \in DOMAIN tab /\ \E k \in DOMAIN ghost.recs : k > li /\ ghost.recs[k].o = o
                                         /\ ghost.recs[k].m = tab[o].m /\ ghost.recs[k].h = tab[o].h
     IN ~(IF la.has THEN o \in DOMAIN tab /\ (tab[o] = [m |-> la.m, h |-> la.h, s |-> la.s, t |-> la.t] \/ tab[o].h \notin ghost.hashes \/ later)
          ELSE (o \in DOMAIN tab => (tab[o].h \notin ghost.hashes \/ later)))}
\* without any torn-and-appended line the table is exactly last-wins over the alive records
Exact(tab, ghost) ==
  /\ DOMAIN tab = {ghost.recs[k].o : k \in {x \in DOMAIN ghost.recs : ghost.recs[x].alive}}
  /\ \A o \in DOMAIN tab : LET la == LastAlive(ghost.recs, o) IN tab[o] = [m |-> la.m, h |-> la.h, s |-> la.s, t |-> la.t]

Ghost0 == [recs |-> <<>>, hist |-> {}, hashes |-> {}, merged |-> FALSE]

\* ghost after appending the lines of one Record operation to a file of length len0
\* whose tail is dirty (ends inside a line) or not
RECURSIVE GhostAppend(_, _, _, _, _)
GhostAppend(gh, rs, k, off, dirty) ==
  IF k > Len(rs) THEN gh
  ELSE LET r == rs[k]
           e == off + Len(Render(r))
       \* (every record that is written completely counts - "loading yields exactly the completely written records" -, also the
       \* first one appended behind a torn line: a record swallowed by the torn line would let an older record of the same
       \* output win, and with it an output look up to date)
       IN GhostAppend([recs |-> Append(gh.recs, [o |-> r.o, m |-> r.m, h |-> r.h, s |-> r.s, t |-> r.t, end |-> e, alive |-> TRUE]),
                       hist |-> gh.hist \cup {<<r.o, r.m, r.h>>}, hashes |-> gh.hashes \cup {r.h},
                       merged |-> gh.merged \/ dirty],
                      rs, k + 1, e, FALSE)

\* ghost after the file was cut to n bytes
GhostTear(gh, n) == [gh EXCEPT !.recs = [k \in DOMAIN gh.recs |-> IF gh.recs[k].end <= n THEN gh.recs[k] ELSE [gh.recs[k] EXCEPT !.alive = FALSE]]]

DirtyTail(exists, b) == exists /\ b # <<>> /\ b[Len(b)] # NL

\* ghost records re-derived from a freshly rewritten file (recompaction / restat)
GhostFromFile(gh, b) ==
  LET ls == CompleteLines(b)  es == LineEnds(b)
      idx == SelectSeq([k \in 1..Len(ls) |-> k], LAMBDA k : ParseLine(ls[k]).ok)
  IN [gh EXCEPT !.recs = [j \in 1..Len(idx) |-> LET r == ParseLine(ls[idx[j]]) IN
                             [o |-> r.o, m |-> r.m, h |-> r.h, s |-> r.s, t |-> r.t, end |-> es[idx[j]], alive |-> TRUE]],
                !.hist = @ \cup {<<ParseLine(ls[idx[j]]).o, ParseLine(ls[idx[j]]).m, ParseLine(ls[idx[j]]).h>> : j \in 1..Len(idx)}]
\* Which log paths recompaction may forget (property text: it "keeps the latest record of every output that is still in the
\* manifest or on disk"): decided in the real binary by NinjaMain::IsPathDead, checked there by lib/checks.py _deadpath_conformance.
DeadPath(inManifest, onDisk) == ~inManifest /\ ~onDisk
=============================================================================
