------------------------------ MODULE Dyndep ------------------------------
(***************************************************************************)
(* C11, second clause: a dyndep file that is malformed, truncated, omits or *)
(* adds a build statement, names an output twice, claims an output another  *)
(* statement produces (or closes a cycle: C17) must make the build fail.    *)
(* Token-level grammar of dyndep files (manual, "Dyndep file reference")    *)
(* and the loader's semantic rules, as a reference verdict Valid(tokens)    *)
(* for one fixed graph; TLC generates the variants of a valid file by       *)
(* deletion / duplication / truncation / substitution at every token,       *)
(* evaluates the verdict, renders the text and exports scenarios for the    *)
(* engine harness.                                                          *)
(*                                                                         *)
(*   file  ::= "ninja_dyndep_version" "=" ("1" | "1.0") NL build*           *)
(*   build ::= "build" out ["|" name+] ":" "dyndep" ["|" name+] NL          *)
(*             [INDENT "restat" "=" value NL]                               *)
(* Rules: every out is the first output of a statement whose dyndep         *)
(* binding names this file; every such statement appears exactly once; a    *)
(* discovered output must not be produced by any other statement nor be     *)
(* listed twice.                                                            *)
(***************************************************************************)
EXTENDS Naturals, Sequences, SequencesExt, FiniteSets, TLC, Json, IOUtils

\* the graph: statements 2 and 3 use the dyndep file "dd"; statement 4 is unrelated
Users == {"out", "o3"}
OtherOutputs == {"o4", "out", "o3", "dd"}
Names == {"out", "o3", "o4", "x1", "s1", "s2", "zz"}     \* names used for substitutions
BadName == "b$^d"      \* not a path: a bad $-escape

Base == <<"ninja_dyndep_version", "=", "1", "NL",
          "build", "out", "|", "x1", ":", "dyndep", "|", "s1", "NL", "restat", "=", "1", "NL",
          "build", "o3", ":", "dyndep", "|", "s2", "NL">>

\* ---- parser over tokens: returns [ok, entries] -------------------------------------------------
\* a path is any token that is not structural: "build", "dyndep", "restat", "=", "1" are legitimate file names
IsName(t) == t \notin {"NL", "|", ":", BadName}
RECURSIVE NamesFrom(_, _)
NamesFrom(q, i) == IF i <= Len(q) /\ IsName(q[i]) THEN <<q[i]>> \o NamesFrom(q, i + 1) ELSE <<>>
RECURSIVE ToNL(_, _)
ToNL(q, i) == IF i > Len(q) \/ q[i] = "NL" THEN <<>> ELSE <<q[i]>> \o ToNL(q, i + 1)

\* one build statement starting at position i (q[i] = "build"); returns [ok, next, e]
ParseBuild(q, i) ==
  IF i + 1 > Len(q) \/ ~IsName(q[i + 1]) THEN [ok |-> FALSE, next |-> i, e |-> <<>>]
  ELSE LET out == q[i + 1]
           j0 == i + 2
           hasO == j0 <= Len(q) /\ q[j0] = "|"
           io == IF hasO THEN NamesFrom(q, j0 + 1) ELSE <<>>
           j1 == IF hasO THEN j0 + 1 + Len(io) ELSE j0
           okHead == j1 + 1 <= Len(q) /\ q[j1] = ":" /\ q[j1 + 1] = "dyndep"
           j2 == j1 + 2
           hasI == okHead /\ j2 <= Len(q) /\ q[j2] = "|"
           ii == IF hasI THEN NamesFrom(q, j2 + 1) ELSE <<>>
           j3 == IF hasI THEN j2 + 1 + Len(ii) ELSE j2
           okNL == okHead /\ j3 <= Len(q) /\ q[j3] = "NL"
           j4 == j3 + 1
           \* an indented binding follows: it must be "restat = <value>" up to the end of the line; a non-empty value means true
           isR == okNL /\ j4 <= Len(q) /\ q[j4] = "restat"
           val == IF isR /\ j4 + 1 <= Len(q) /\ q[j4 + 1] = "=" THEN ToNL(q, j4 + 2) ELSE <<>>
           j5 == j4 + 2 + Len(val)
           okR == isR /\ j4 + 1 <= Len(q) /\ q[j4 + 1] = "=" /\ j5 <= Len(q) /\ q[j5] = "NL" /\ \A k \in DOMAIN val : val[k] # BadName
       IN IF ~okNL \/ (isR /\ ~okR) THEN [ok |-> FALSE, next |-> i, e |-> <<>>]
          ELSE [ok |-> TRUE, next |-> IF isR THEN j5 + 1 ELSE j4, e |-> [out |-> out, io |-> io, ii |-> ii, restat |-> isR /\ Len(val) > 0]]

RECURSIVE ParseBuilds(_, _, _)
ParseBuilds(q, i, acc) ==
  IF i > Len(q) THEN [ok |-> TRUE, entries |-> acc]
  ELSE IF q[i] = "NL" THEN ParseBuilds(q, i + 1, acc)          \* blank lines are allowed
  ELSE IF q[i] # "build" THEN [ok |-> FALSE, entries |-> acc]
  ELSE LET r == ParseBuild(q, i) IN IF ~r.ok THEN [ok |-> FALSE, entries |-> acc] ELSE ParseBuilds(q, r.next, Append(acc, r.e))

Parse(q) ==
  IF Len(q) < 4 \/ q[1] # "ninja_dyndep_version" \/ q[2] # "=" \/ q[3] \notin {"1", "1.0"} \/ q[4] # "NL" THEN [ok |-> FALSE, entries |-> <<>>]
  ELSE ParseBuilds(q, 5, <<>>)

Valid(q) ==
  LET p == Parse(q)  es == p.entries IN
  /\ p.ok
  /\ \A k \in DOMAIN es : es[k].out \in Users                                   \* no statement that does not name this file
  /\ \A u \in Users : Cardinality({k \in DOMAIN es : es[k].out = u}) = 1         \* none omitted, none twice
  /\ \A k \in DOMAIN es : \A x \in DOMAIN es[k].io : es[k].io[x] \notin OtherOutputs    \* no output another statement produces
  /\ \A k1, k2 \in DOMAIN es : \A x1 \in DOMAIN es[k1].io : \A x2 \in DOMAIN es[k2].io : (k1 # k2 \/ x1 # x2) => es[k1].io[x1] # es[k2].io[x2]
  \* (a discovered input that closes a cycle is a matter of the graph, not of the file: C17 and the engine monitors)

\* ---- variants ------------------------------------------------------------------------------------
Del(q, k) == SubSeq(q, 1, k - 1) \o SubSeq(q, k + 1, Len(q))
Dup(q, k) == SubSeq(q, 1, k) \o SubSeq(q, k, Len(q))
Trunc(q, k) == SubSeq(q, 1, k)
Subst(q, k, t) == [i \in DOMAIN q |-> IF i = k THEN t ELSE q[i]]
NamePos == {6, 8, 12, 19, 23}
AllVariants ==
  {Base}
  \cup {Del(Base, k) : k \in DOMAIN Base} \cup {Dup(Base, k) : k \in DOMAIN Base \ {3}} \cup {Trunc(Base, k) : k \in 0..Len(Base)}   \* ("version = 1 1" is left unspecified)
  \cup ({Subst(Base, k, t) : k \in NamePos, t \in Names} \ {Subst(Base, 8, t) : t \in {"s1", "s2"}})   \* (a source is not claimed as output)
  \cup {Subst(Base, 3, v) : v \in {"1.0", "0", "1.1", "2"}}
  \cup {Subst(Base, k, BadName) : k \in NamePos}
  \cup {SubSeq(Base, 1, 4) \o SubSeq(Base, 18, 24) \o SubSeq(Base, 5, 17)}          \* statements in the other order
  \cup {SubSeq(Base, 1, 17) \o SubSeq(Base, 5, 17) \o SubSeq(Base, 18, 24)}         \* a whole statement twice

\* Variants whose file is valid but names, as a discovered input, a file that does not exist and that no statement
\* produces are left out: ninja tolerates those like vanished depfile headers (build.cc Plan::AddSubTarget,
\* generated_by_dep_loader), while the same input written into the manifest is an error; the property quantifies over
\* contents that are valid for the graph.
KnownFiles == {"s1", "s2", "o4", "out", "o3", "x1", "dd"}
Variants == {q \in AllVariants : Valid(q) => \A k \in DOMAIN Parse(q).entries : \A x \in DOMAIN Parse(q).entries[k].ii : Parse(q).entries[k].ii[x] \in KnownFiles}

\* ---- rendering -------------------------------------------------------------------------------------
RECURSIVE Render(_, _, _)
Render(q, i, bol) ==
  IF i > Len(q) THEN ""
  ELSE LET t == q[i] IN
       IF t = "NL" THEN "\n" \o Render(q, i + 1, TRUE)
       ELSE (IF bol THEN (IF t = "restat" THEN "  " ELSE "") ELSE " ") \o t \o Render(q, i + 1, FALSE)
Text(q) == Render(q, 1, TRUE)

St0 == [id |-> 0, outs |-> <<>>, iouts |-> <<>>, ex |-> <<>>, im |-> <<>>, oo |-> <<>>, val |-> <<>>, hdrs |-> <<>>, phony |-> FALSE, restat |-> FALSE,
        gen |-> FALSE, rsp |-> FALSE, deps |-> "", pool |-> "", dd |-> "", ddi |-> <<>>, ddo |-> <<>>, ddr |-> FALSE, mkdd |-> "", badrspdir |-> FALSE]
\* produced = TRUE: the dyndep file is written during the build by statement 1; FALSE: it is a source file
EntryOf(q, o) == LET es == Parse(q).entries IN es[CHOOSE k \in DOMAIN es : es[k].out = o]
Scenario(q, produced) ==
  LET ok == Valid(q)
      e2 == IF ok THEN EntryOf(q, "out") ELSE EntryOf(Base, "out")
      e3 == IF ok THEN EntryOf(q, "o3") ELSE EntryOf(Base, "o3")
  IN
  [srcs |-> IF produced THEN <<"s1", "s2">> ELSE <<"s1", "s2", "dd">>, pools |-> <<>>,
   stmts |-> (IF produced THEN <<[St0 EXCEPT !.id = 1, !.outs = <<"dd">>, !.ex = <<"s1">>, !.mkdd = "dd"]>> ELSE <<[St0 EXCEPT !.id = 1, !.outs = <<"o1">>, !.ex = <<"s1">>]>>)
             \o <<[St0 EXCEPT !.id = 2, !.outs = <<"out">>, !.ex = <<"s2">>, !.oo = <<"dd">>, !.dd = "dd", !.ddi = e2.ii, !.ddo = e2.io, !.ddr = e2.restat],
                  [St0 EXCEPT !.id = 3, !.outs = <<"o3">>, !.ex = <<"s1">>, !.oo = <<"dd">>, !.dd = "dd", !.ddi = e3.ii, !.ddo = e3.io, !.ddr = e3.restat],
                  [St0 EXCEPT !.id = 4, !.outs = <<"o4">>, !.ex = <<"s2">>]>>,
   ddtext |-> [dd |-> Text(q)], ddbad |-> IF ok THEN <<>> ELSE <<"dd">>,
   hist |-> <<[op |-> "build", targets |-> <<"out", "o3", "o4">>, j |-> 2, k |-> 1, fail |-> <<>>],
              [op |-> "build", targets |-> <<"out", "o3", "o4">>, j |-> 2, k |-> 1, fail |-> <<>>]>>]

VARIABLE v
Init == v \in Variants
Next == UNCHANGED v
Spec == Init /\ [][Next]_v
StopInit == v = <<>>
\* sanity of the reference itself: the base file is valid, every truncation that ends inside a statement is invalid
BaseValid == Valid(Base)
TruncInvalid == \A k \in 0..(Len(Base) - 1) : ~Valid(Trunc(Base, k))
ASSUME BaseValid /\ TruncInvalid
\* the dyndep file is neither there nor produced by any statement
MissingScenario == [Scenario(Base, FALSE) EXCEPT !.srcs = <<"s1", "s2">>, !.ddbad = <<"dd">>]
ASSUME "OUT" \notin DOMAIN IOEnv \/ ndJsonSerialize(IOEnv.OUT, SetToSeq({Scenario(q, pr) : q \in Variants, pr \in BOOLEAN} \cup {MissingScenario}))
=============================================================================
