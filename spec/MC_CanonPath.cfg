SPECIFICATION Spec
CONSTANT MaxLen = 8
INVARIANT LawsHold
CHECK_DEADLOCK FALSE
