---------------------------- MODULE NinjaImplMC ----------------------------
(***************************************************************************)
(* Design-level model checking of the engine: scan + plan (NinjaImpl) plus  *)
(* the build loop, pools, failure budget, FinishCommand with restat         *)
(* pruning (Plan::CleanNode), build-log / deps-log records, and edits       *)
(* between invocations.  TLC explores every completion order, every         *)
(* success / failure outcome and every bounded history for the graphs of    *)
(* GRAPHS (exported by Families.tla) and checks the Ref properties          *)
(* (NinjaRef) in every state.  A behaviour in which ninja does not consult  *)
(* the recorded dependencies of an already-dirty statement (known finding   *)
(* KF-DEPS-SKIPPED) is marked `kf`; the exactness properties are asserted   *)
(* on the other behaviours, and KfReachable documents that the finding is   *)
(* a behaviour of the design.                                               *)
(***************************************************************************)
EXTENDS NinjaImpl, Json, IOUtils

CONSTANTS MaxInv,     \* invocations per behaviour
          MaxEnv,     \* environment actions between two invocations
          MaxClock,   \* bound of the logical clock
          Js,         \* values of -j
          Ks,         \* values of -k (0 = unlimited)
          Crashes,    \* TRUE: ninja may die at any point of a build (C07)
          Toks,       \* jobserver pool sizes offered to ninja (tokens in the FIFO besides the implicit slot); 99 = no jobserver
          Prio        \* TRUE: the ready queue and the pools' delayed sets are ordered by critical-path weight as in the code
                      \* (Plan::ComputeCriticalPath, EdgePriorityQueue) and phony statements wait for a slot like commands;
                      \* FALSE: any ready statement may start next (every priority heuristic at once)

RawGraphs == ndJsonDeserialize(IF "GRAPHS" \in DOMAIN IOEnv THEN IOEnv.GRAPHS ELSE "graphs.ndjson")
Vstr(s, ver) == (IF s.gen THEN "gen" ELSE "v" \o ToString(ver)) \o (IF s.rsp THEN "|rsp" ELSE "")
Decorate(gr, vers) ==
  [srcs |-> gr.srcs, pools |-> gr.pools,
   stmts |-> [i \in DOMAIN gr.stmts |-> gr.stmts[i] @@ [vstr |-> Vstr(gr.stmts[i], vers[i]), en |-> "e" \o ToString(i), rsptxt |-> "", rsppath |-> "", ddtxt |-> ""]]]

VARIABLES raw, vers,          \* the graph (fixed per behaviour) and the command versions
          disk, clock, blog, dlog, dfile,      \* the world
          L, F,               \* ghost history for the Ref operators
          pc, iv,             \* "idle" / "build", state of the invocation
          ninv, nenv, kf, last
vars == <<raw, vers, disk, clock, blog, dlog, dfile, L, F, pc, iv, ninv, nenv, kf, last>>

g == Decorate(raw, vers)
FilesG == ToS(raw.srcs) \cup AllOuts(g) \cup UNION {ToS(ReadList(St(g, i))) : i \in Ids(g)}
Src(f, v) == [k |-> f, v |-> ToString(v), ins |-> <<>>]
T == LET fs == SetToSeq({f \in DOMAIN disk : disk[f].m > 0})
         ds == SetToSeq(dfile)
     IN [k \in DOMAIN fs |-> [n |-> fs[k], m |-> disk[fs[k]].m, c |-> disk[fs[k]].c]]
        \o [k \in DOMAIN ds |-> [n |-> DepfilePath(St(g, ds[k])), m |-> 1, c |-> Missing("d")]]
Env == [g |-> g, nm |-> [f \in DOMAIN disk |-> disk[f].m],
        blog |-> [o \in DOMAIN blog |-> [m |-> blog[o].m, cur |-> blog[o].vs = St(g, Prod(g, o)).vstr]],
        dlog |-> dlog, dfile |-> dfile]

Iv0 == [x |-> 0, targets |-> <<>>, j |-> 1, k |-> 1, env |-> 0, st |-> 0, notrdy |-> {}, want |-> [y \in {} |-> "none"],
        we |-> 0, ce |-> 0, sched |-> {}, ready |-> {}, delayed |-> {}, running |-> {}, started |-> <<>>, startDone |-> <<>>, doneOK |-> {},
        failed |-> {}, nfail |-> 0, codes |-> {}, T0 |-> <<>>, exp |-> {}, need |-> {}, L0 |-> <<>>, code |-> 0, msg |-> "", skipRec |-> {},
        js |-> 0 - 1, free |-> 0, imp |-> FALSE, prio |-> <<>>]
Init ==
  /\ raw \in {RawGraphs[k] : k \in DOMAIN RawGraphs}
  /\ vers = [i \in DOMAIN raw.stmts |-> 1]
  /\ disk = [f \in ToS(raw.srcs) \cup UNION {ToS(raw.stmts[i].outs) \cup ToS(raw.stmts[i].iouts) \cup ToS(raw.stmts[i].hdrs) : i \in DOMAIN raw.stmts} |->
               IF f \in ToS(raw.srcs) THEN [m |-> 1, c |-> Src(f, 1)] ELSE [m |-> 0, c |-> Missing(f)]]
  /\ clock = 1 /\ blog = [x \in {} |-> 0] /\ dlog = [x \in {} |-> 0] /\ dfile = {}
  /\ L = [i \in DOMAIN raw.stmts |-> LastNone] /\ F = {}
  /\ pc = "idle" /\ iv = Iv0 /\ ninv = 0 /\ nenv = 0 /\ kf = FALSE /\ last = [ok |-> FALSE, targets |-> <<>>, crashed |-> FALSE]

\* ---------------------------------------------------------------------------------------------
\* Plan helpers (build.cc)
WantedCmd(w) == {i \in DOMAIN w : w[i] # "nothing" /\ ~St(g, i).phony}
Wanted(w) == {i \in DOMAIN w : w[i] # "nothing"}
InputsReady(st, notrdy, i) == \A k \in DOMAIN AllIn(st, i) : LET p == Prod(g, AllIn(st, i)[k]) IN p = 0 \/ p \notin notrdy
PoolDepthG(p) == IF p = "console" THEN 1 ELSE IF \E k \in DOMAIN raw.pools : raw.pools[k].name = p THEN raw.pools[CHOOSE k \in DOMAIN raw.pools : raw.pools[k].name = p].depth ELSE 0
UseOf(sched, p) == Cardinality({i \in sched : St(g, i).pool = p})

\* Plan::ScheduleWork for statement i (want already "start"): pool delay or ready queue
Schedule(v, i) ==
  LET p == St(g, i).pool IN
  IF v.want[i] = "finish" THEN v
  ELSE IF PoolDepthG(p) # 0 /\ UseOf(v.sched, p) >= PoolDepthG(p)
       THEN [v EXCEPT !.want[i] = "finish", !.delayed = @ \cup {i}]
       ELSE [v EXCEPT !.want[i] = "finish", !.sched = @ \cup {i}, !.ready = @ \cup {i}]
\* Pool::RetrieveReadyEdges: move delayed statements of pool p while there is room (DelayedEdges is ordered by
\* WeightedEdgeCmp: equal weights, so highest priority first; without Prio: lowest id first)
RECURSIVE Retrieve(_, _)
Retrieve(v, p) ==
  LET d == {i \in v.delayed : St(g, i).pool = p} IN
  IF d = {} \/ PoolDepthG(p) = 0 \/ UseOf(v.sched, p) >= PoolDepthG(p) THEN v
  ELSE LET i == IF Prio THEN TopOf(v.prio, d) ELSE CHOOSE x \in d : \A y \in d : x <= y IN
       Retrieve([v EXCEPT !.delayed = @ \ {i}, !.sched = @ \cup {i}, !.ready = @ \cup {i}], p)

\* Plan::EdgeFinished(success) + NodeFinished + EdgeMaybeReady (recursive through unwanted statements)
RECURSIVE FinishOK(_, _, _)
RECURSIVE WakeAll(_, _, _)
WakeAll(v, q, fuel) == IF q = {} \/ fuel = 0 THEN v
                       ELSE LET i == CHOOSE x \in q : \A y \in q : x <= y
                                v1 == IF i \in DOMAIN v.want /\ v.want[i] # "gone" /\ InputsReady(v.st, v.notrdy, i)
                                      THEN (IF v.want[i] = "nothing" THEN FinishOK(v, i, fuel - 1) ELSE IF v.want[i] = "start" THEN Schedule(v, i) ELSE v)
                                      ELSE v
                            IN WakeAll(v1, q \ {i}, fuel)
FinishOK(v, i, fuel) ==
  LET p == St(g, i).pool
      direct == v.want[i] # "nothing"
      v1 == Retrieve([v EXCEPT !.sched = IF direct THEN @ \ {i} ELSE @], p)
      v2 == [v1 EXCEPT !.want[i] = "gone", !.notrdy = @ \ {i}, !.we = IF direct THEN @ - 1 ELSE @]
      users == {x \in Ids(g) : \E k \in DOMAIN AllIn(v.st, x) : AllIn(v.st, x)[k] \in Outs(St(g, i))}
  IN WakeAll(v2, users, fuel)

\* Plan::CleanNode (restat pruning), with the input lists and cached mtimes of the scan
RECURSIVE CleanNode(_, _, _)
RECURSIVE CleanOuts(_, _, _, _)
CleanOuts(v, q, k, fuel) == IF k > Len(q) THEN v ELSE CleanOuts(CleanNode(v, q[k], fuel), q, k + 1, fuel)
CleanNode(v, n, fuel) ==
  LET v0 == [v EXCEPT !.st.dirty = @ \ {n}]
      users == {x \in Ids(g) : \E k \in DOMAIN AllIn(v.st, x) : AllIn(v.st, x)[k] = n}
      RECURSIVE Each(_, _)
      Each(vv, q) ==
        IF q = {} \/ fuel = 0 THEN vv
        ELSE LET x == CHOOSE y \in q : \A z \in q : y <= z
                 s == St(g, x)
                 qn == NonOO(vv.st, x)
                 proceed == x \in DOMAIN vv.want /\ vv.want[x] \in {"start", "finish"} /\ x \notin vv.st.dmiss /\ ~InDirty(vv.st, qn)
                 mri == MaxOf({vv.st.nmt[qn[k]] : k \in DOMAIN qn})
                 outs == s.outs \o s.iouts
                 od == IF s.phony THEN Len(AllIn(vv.st, x)) = 0 /\ Len(s.val) = 0 /\ \E k \in DOMAIN outs : vv.st.nmt[outs[k]] = 0
                       ELSE \E k \in DOMAIN outs : OutDirtyFirst(vv.env, s, outs[k], vv.st.nmt[outs[k]], mri)
                 nmtP == IF s.phony /\ mri > 0 THEN [f \in DOMAIN vv.st.nmt |-> IF f \in ToS(outs) /\ vv.env.nm[f] = 0 /\ vv.st.nmt[f] < mri THEN mri ELSE vv.st.nmt[f]] ELSE vv.st.nmt
                 v1 == IF proceed /\ ~od
                       THEN LET c == CleanOuts([vv EXCEPT !.st.nmt = nmtP], outs, 1, fuel - 1)
                            IN [c EXCEPT !.want[x] = "nothing", !.we = @ - 1, !.ce = IF s.phony THEN @ ELSE @ - 1]
                       ELSE IF proceed THEN [vv EXCEPT !.st.nmt = nmtP] ELSE vv
             IN Each(v1, q \ {x})
  IN Each(v0, users)

\* ---------------------------------------------------------------------------------------------
Budget(v) == v.k = 0 \/ v.nfail < v.k
MoreToDo(v) == v.we > 0 /\ v.ce > 0

\* jobserver (build.cc Plan::FindWork, jobserver.cc): with a token pool -j is ignored; every statement taken from the ready
\* queue - phony ones too - first needs a slot: the implicit one if it is free, else a token from the pool
SlotFree(v) == v.js < 0 \/ ~v.imp \/ v.free > 0
Acquire(v) == IF v.js < 0 THEN [v |-> v, slot |-> "none"]
              ELSE IF ~v.imp THEN [v |-> [v EXCEPT !.imp = TRUE], slot |-> "imp"]
              ELSE [v |-> [v EXCEPT !.free = @ - 1], slot |-> "tok"]
Release(v, slot) == IF slot = "imp" THEN [v EXCEPT !.imp = FALSE] ELSE IF slot = "tok" THEN [v EXCEPT !.free = @ + 1] ELSE v

Invoke(targets, j, k, tok) ==
  /\ pc = "idle" /\ ninv < MaxInv
  /\ LET env == Env
         r == ScanAll(env, targets)
         w == r.w
         missing == \E i \in DOMAIN w : \E x \in ToS(St(g, i).ex) \cup ToS(St(g, i).im) \cup ToS(St(g, i).oo) : Prod(g, x) = 0 /\ disk[x].m = 0
         tg == ToS(targets)
         TT == T
         exp == ExpectedRun(g, TT, L, F, tg)
         expS == ExpectedRunSkip(g, TT, L, F, tg)
         v0 == [x |-> 1, targets |-> targets, j |-> j, k |-> k, env |-> env, st |-> r.st, notrdy |-> r.st.notrdy, want |-> w,
                we |-> Cardinality(Wanted(w)), ce |-> Cardinality(WantedCmd(w)), sched |-> {}, ready |-> {}, delayed |-> {},
                running |-> {}, started |-> <<>>, startDone |-> <<>>, doneOK |-> {}, failed |-> {}, nfail |-> 0, codes |-> {},
                T0 |-> TT, exp |-> exp, need |-> Needed(g, TT, L, tg), L0 |-> L, code |-> 0, msg |-> "", skipRec |-> {i \in r.st.skipped : Rec(g, TT, L, i) # {}},
                js |-> IF tok = 99 THEN 0 - 1 ELSE tok, free |-> IF tok = 99 THEN 0 ELSE tok, imp |-> FALSE,
                prio |-> CritW(env, r.st, r.pt)]
         \* ScheduleInitialEdges: members of a pool with a depth are all delayed first and then retrieved once per pool,
         \* "so higher priority edges are retrieved first, not the ones that happen to be first in the want_ map"
         RECURSIVE Init1(_, _)
         Init1(v, q) == IF q = {} THEN v ELSE LET i == CHOOSE x \in q : \A y \in q : x <= y IN
                          Init1(IF v.want[i] = "start" /\ InputsReady(v.st, v.notrdy, i)
                                THEN (IF Prio /\ PoolDepthG(St(g, i).pool) # 0 THEN [v EXCEPT !.want[i] = "finish", !.delayed = @ \cup {i}] ELSE Schedule(v, i))
                                ELSE v, q \ {i})
         RECURSIVE RetrAll(_, _)
         RetrAll(v, ps) == IF ps = {} THEN v ELSE LET p == CHOOSE x \in ps : TRUE IN RetrAll(Retrieve(v, p), ps \ {p})
         v1 == RetrAll(Init1(v0, DOMAIN w), {St(g, i).pool : i \in DOMAIN w})
     IN /\ kf' = (kf \/ (exp # expS /\ v0.skipRec # {}))
        /\ IF missing THEN /\ pc' = "idle" /\ iv' = [v0 EXCEPT !.code = 1, !.msg = "missing"]
                           /\ last' = [ok |-> FALSE, targets |-> targets, crashed |-> last.crashed]
           ELSE IF ~MoreToDo(v0) THEN /\ pc' = "idle" /\ iv' = [v0 EXCEPT !.msg = "nowork"]
                                      /\ last' = [ok |-> TRUE, targets |-> targets, crashed |-> last.crashed]
           ELSE pc' = "build" /\ iv' = v1 /\ UNCHANGED last
  /\ ninv' = ninv + 1 /\ nenv' = 0
  /\ UNCHANGED <<raw, vers, disk, clock, blog, dlog, dfile, L, F>>

\* Builder::Build: FindWork is called only while the runner has capacity - also for a phony statement at the top of the queue
CanStartV(v) == Budget(v) /\ v.ready # {} /\ (IF v.js >= 0 THEN SlotFree(v) ELSE (Cardinality(v.running) < v.j \/ (~Prio /\ \E i \in v.ready : St(g, i).phony)))
CanStart == pc = "build" /\ CanStartV(iv)
Top(v) == TopOf(v.prio, v.ready)

ContentOf(s) == NewC(s, [f \in DOMAIN disk |-> IF disk[f].m > 0 THEN disk[f].c ELSE Missing(f)])

\* -- the loop's steps as functions of the invocation state (shared with the trace specification ImplDynTrace) --------
Fuel == 2 * Len(g.stmts) + 2
\* a phony statement in the ready queue is finished on the spot
StartPhony(v, i) == FinishOK([v EXCEPT !.ready = @ \ {i}], i, Fuel)
\* a command is handed to the runner: c = what it will write, t = start time
StartCmd(v0, i, c, t) == LET a == Acquire(v0)  v == a.v IN
                         [v EXCEPT !.ready = @ \ {i}, !.running = @ \cup {[i |-> i, c |-> c, t |-> t, slot |-> a.slot]},
                                   !.started = Append(@, i), !.startDone = Append(@, v.doneOK)]
\* Plan::EdgeFinished(kEdgeFailed): pool release only
FinishFail(v0, r) == LET v == Release(v0, r.slot) IN
                    Retrieve([v EXCEPT !.running = @ \ {r}, !.sched = @ \ {r.i}, !.failed = @ \cup {r.i}, !.nfail = @ + 1, !.codes = @ \cup {1}], St(g, r.i).pool)
\* FinishCommand of a successful command whose outputs have the mtimes nm afterwards: restat check against the mtimes
\* cached by the scan, Plan::CleanNode for unchanged outputs, then Plan::EdgeFinished
CleanedOuts(v, i, nm) == LET s == St(g, i) IN {o \in ToS(s.outs \o s.iouts) : Restat(s) /\ nm[o] = v.st.nmt[o]}
FinishSucc(v0, r, cleaned) ==
  LET v == Release(v0, r.slot)
      RECURSIVE CleanAll(_, _)
      CleanAll(w, q) == IF q = {} THEN w ELSE LET o == CHOOSE x \in q : TRUE IN CleanAll(CleanNode(w, o, Fuel), q \ {o})
      v1 == CleanAll([v EXCEPT !.running = @ \ {r}], cleaned)
  IN FinishOK([v1 EXCEPT !.doneOK = @ \cup {r.i}], r.i, Fuel)

\* the effect of command r (started with content r.c) on the disk d at time c: a restat command leaves an output with
\* the right content untouched
WriteOuts(d0, c0, r) ==
  LET s == St(g, r.i)
      outs == s.outs \o s.iouts
      RECURSIVE Write(_, _, _)
      Write(d, k, c) == IF k > Len(outs) THEN [d |-> d, c |-> c]
                        ELSE LET o == outs[k] IN
                             IF Restat(s) /\ d[o].m > 0 /\ d[o].c = r.c THEN Write(d, k + 1, c)
                             ELSE Write([d EXCEPT ![o] = [m |-> c + 1, c |-> r.c]], k + 1, c + 1)
  IN Write(d0, 1, c0)
\* the time recorded in the build log
RecM(v, r, d1) == LET s == St(g, r.i)  outs == s.outs \o s.iouts IN
                  IF (Restat(s) \/ s.gen) /\ CleanedOuts(v, r.i, [o \in DOMAIN d1 |-> d1[o].m]) = {} THEN MaxOf({r.t} \cup {d1[o].m : o \in ToS(outs)}) ELSE r.t

Start(i) ==
  /\ pc = "build" /\ Budget(iv) /\ i \in iv.ready /\ clock < MaxClock
  /\ Prio => i = Top(iv) /\ (iv.js < 0 => Cardinality(iv.running) < iv.j)
  /\ LET s == St(g, i) IN
     IF s.phony
     THEN /\ SlotFree(iv)          \* taken and handed back on the spot
          /\ iv' = StartPhony(iv, i)
          /\ UNCHANGED <<clock>>
     ELSE /\ IF iv.js >= 0 THEN SlotFree(iv) ELSE Cardinality(iv.running) < iv.j
          /\ iv' = StartCmd(iv, i, ContentOf(s), clock + 1)
          /\ clock' = clock + 1
  /\ UNCHANGED <<raw, vers, disk, blog, dlog, dfile, L, F, pc, ninv, nenv, kf, last>>

\* the loop reaps only when it cannot start anything
Finish(r, ok) ==
  /\ pc = "build" /\ r \in iv.running /\ ~CanStart /\ clock + 3 < MaxClock
  /\ LET i == r.i  s == St(g, i)
         outs == s.outs \o s.iouts
         wr == IF ok THEN WriteOuts(disk, clock, r) ELSE [d |-> disk, c |-> clock]
         d1 == wr.d
     IN IF ~ok
        THEN /\ iv' = FinishFail(iv, r)
             /\ F' = F \cup {i}
             /\ UNCHANGED <<disk, clock, blog, dlog, dfile, L>>
        ELSE LET cleaned == CleanedOuts(iv, i, [o \in DOMAIN d1 |-> d1[o].m])
                 recm == RecM(iv, r, d1)
             IN /\ iv' = FinishSucc(iv, r, cleaned)
                /\ disk' = d1 /\ clock' = wr.c + 1
                /\ blog' = [o \in DOMAIN blog \cup ToS(outs) |-> IF o \in ToS(outs) THEN [m |-> recm, vs |-> s.vstr] ELSE blog[o]]
                /\ dlog' = IF s.deps \in {"gcc", "msvc"} THEN [o \in DOMAIN dlog \cup {outs[1]} |-> IF o = outs[1] THEN [m |-> d1[outs[1]].m, d |-> s.hdrs] ELSE dlog[o]] ELSE dlog
                /\ dfile' = IF s.deps = "depfile" THEN dfile \cup {i} ELSE dfile
                /\ L' = [L EXCEPT ![i] = [has |-> TRUE, vstr |-> s.vstr, start |-> r.t, end |-> wr.c + 1, rec |-> ToS(s.hdrs), recok |-> TRUE, unsure |-> FALSE]]
                /\ F' = F \ {i}
  /\ UNCHANGED <<raw, vers, pc, ninv, nenv, kf, last>>

\* how the loop ends
ExitMsg(v) == IF ~MoreToDo(v) THEN "ok" ELSE IF ~Budget(v) THEN "failed" ELSE IF v.nfail > 0 THEN "noprogress" ELSE "stuck"
\* Builder::Build returns
Exit ==
  /\ pc = "build" /\ iv.running = {} /\ ~CanStart
  /\ LET ok == ~MoreToDo(iv)
         msg == ExitMsg(iv)
     IN /\ iv' = [iv EXCEPT !.code = IF ok THEN 0 ELSE (IF iv.codes = {} THEN 1 ELSE 1), !.msg = msg]
        /\ last' = [ok |-> ok, targets |-> iv.targets, crashed |-> last.crashed]
  /\ pc' = "idle"
  /\ UNCHANGED <<raw, vers, disk, clock, blog, dlog, dfile, L, F, ninv, nenv, kf>>

\* C07: ninja dies during a build (SIGKILL, power loss).  Each command that was running either completes on its own
\* afterwards (outputs and depfile appear, nothing is recorded) or dies too.  For one completed command `mid` whose deps go
\* to the deps log ninja may have got as far as the build-log record (the deps-log record is written after it).
Crash(S, mid) ==
  /\ Crashes /\ pc = "build" /\ iv.running # {} /\ S \subseteq iv.running
  /\ (mid = 0 \/ \E r \in S : r.i = mid /\ St(g, mid).deps \in {"gcc", "msvc"})
  /\ clock + 3 * Cardinality(S) + 3 < MaxClock
  /\ LET RECURSIVE WriteAll(_, _, _)
         WriteAll(d, c, Q) == IF Q = {} THEN [d |-> d, c |-> c]
                              ELSE LET r == CHOOSE x \in Q : \A y \in Q : x.i <= y.i
                                       w == WriteOuts(d, c, r)
                                   IN WriteAll(w.d, w.c, Q \ {r})
         w == WriteAll(disk, clock, S)
         rm == CHOOSE r \in S : r.i = mid
         sm == St(g, mid)
         om == ToS(sm.outs \o sm.iouts)
     IN /\ disk' = w.d /\ clock' = w.c + 1
        /\ dfile' = dfile \cup {r.i : r \in {x \in S : St(g, x.i).deps = "depfile"}}
        /\ blog' = IF mid = 0 THEN blog ELSE [o \in DOMAIN blog \cup om |-> IF o \in om THEN [m |-> RecM(iv, rm, w.d), vs |-> sm.vstr] ELSE blog[o]]
        /\ L' = IF mid = 0 THEN L ELSE [L EXCEPT ![mid] = [has |-> TRUE, vstr |-> sm.vstr, start |-> rm.t, end |-> w.c + 1, rec |-> {}, recok |-> FALSE, unsure |-> FALSE]]
  /\ pc' = "idle" /\ iv' = [iv EXCEPT !.code = 137, !.msg = "crashed", !.running = {}]
  /\ last' = [ok |-> FALSE, targets |-> iv.targets, crashed |-> TRUE]
  /\ UNCHANGED <<raw, vers, dlog, F, ninv, nenv, kf>>

\* environment between invocations
Edit(f) == /\ pc = "idle" /\ ninv > 0 /\ ninv < MaxInv /\ nenv < MaxEnv /\ clock < MaxClock
           /\ disk' = [disk EXCEPT ![f] = [m |-> clock + 1, c |-> Src(f, clock + 1)]] /\ clock' = clock + 1
           /\ nenv' = nenv + 1 /\ last' = [last EXCEPT !.ok = FALSE]
           /\ UNCHANGED <<raw, vers, blog, dlog, dfile, L, F, pc, iv, ninv, kf>>
Touch(f) == /\ pc = "idle" /\ ninv > 0 /\ ninv < MaxInv /\ nenv < MaxEnv /\ clock < MaxClock
            /\ disk' = [disk EXCEPT ![f].m = clock + 1] /\ clock' = clock + 1
            /\ nenv' = nenv + 1 /\ last' = [last EXCEPT !.ok = FALSE]
            /\ UNCHANGED <<raw, vers, blog, dlog, dfile, L, F, pc, iv, ninv, kf>>
Del(o) == /\ pc = "idle" /\ ninv > 0 /\ ninv < MaxInv /\ nenv < MaxEnv /\ disk[o].m > 0
          /\ disk' = [disk EXCEPT ![o] = [m |-> 0, c |-> Missing(o)]]
          /\ nenv' = nenv + 1 /\ last' = [last EXCEPT !.ok = FALSE]
          /\ UNCHANGED <<raw, vers, clock, blog, dlog, dfile, L, F, pc, iv, ninv, kf>>
ChangeCmd(i) == /\ pc = "idle" /\ ninv > 0 /\ ninv < MaxInv /\ nenv < MaxEnv /\ ~raw.stmts[i].phony /\ vers[i] < 2
                /\ vers' = [vers EXCEPT ![i] = @ + 1]
                /\ nenv' = nenv + 1 /\ last' = [last EXCEPT !.ok = FALSE]
                /\ UNCHANGED <<raw, disk, clock, blog, dlog, dfile, L, F, pc, iv, ninv, kf>>

Roots == LET RECURSIVE R(_) R(i) == IF i > Len(g.stmts) THEN <<>> ELSE SelectSeq(g.stmts[i].outs \o g.stmts[i].iouts, LAMBDA o : o \in RootOuts(g)) \o R(i + 1) IN R(1)
Next ==
  \/ \E j \in Js, k \in Ks, tok \in Toks : Invoke(Roots, j, k, tok)
  \/ \E j \in Js, o \in AllOuts(g) : Invoke(<<o>>, j, 1, 99)
  \/ \E i \in Ids(g) : Start(i)
  \/ \E r \in iv.running : \E ok \in BOOLEAN : Finish(r, ok)
  \/ Exit
  \/ \E S \in SUBSET iv.running : \E mid \in {0} \cup {r.i : r \in S} : Crash(S, mid)
  \/ \E f \in ToS(raw.srcs) : Edit(f) \/ Touch(f)
  \/ \E o \in AllOuts(g) : Del(o)
  \/ \E i \in Ids(g) : ChangeCmd(i)
Spec == Init /\ [][Next]_vars
FairSpec == Spec /\ WF_vars(Exit) /\ WF_vars(\E i \in Ids(g) : Start(i)) /\ WF_vars(\E r \in iv.running : Finish(r, TRUE))

\* ---------------------------------------------------------------------------------------------
\* Properties (Ref level)
Done == pc = "idle" /\ iv.x = 1
StartedSet == ToS(iv.started)
\* C01
NoStale == (Done /\ nenv = 0 /\ iv.code = 0 /\ ~kf /\ iv.msg \in {"ok", "nowork"}) =>
             LET clean == CleanContentN(g, T, L, iv.need) IN
             \A i \in {x \in iv.need : ~St(g, x).phony} : \A o \in Outs(St(g, i)) : disk[o].m > 0 /\ disk[o].c = clean[o]
\* C03
Minimal == (Done /\ ~kf /\ ~last.crashed /\ iv.msg # "missing") => IF iv.code = 0 THEN StartedSet = iv.exp ELSE StartedSet \subseteq iv.exp
\* C04
Ordered == (iv.x = 1 /\ ~kf /\ ~last.crashed) => \A k \in DOMAIN iv.started : \A p \in Producers(g, iv.T0, iv.L0, iv.started[k]) : p \in iv.exp => p \in iv.startDone[k]
\* C05
Contained == iv.x = 1 => /\ \A k \in DOMAIN iv.started : iv.started[k] \notin Downstream(g, iv.T0, iv.L0, iv.failed) \/ iv.started[k] \in iv.failed
                              \/ \E k2 \in DOMAIN iv.started : k2 > k /\ iv.started[k2] \in iv.failed   \* started before the failure happened
                         /\ (Done /\ iv.failed # {} => iv.code # 0)
                         /\ (Done /\ iv.code # 0 /\ iv.msg \notin {"missing", "crashed"} => iv.failed # {})
\* C06
Limits == iv.x = 1 => /\ (IF iv.js >= 0 THEN Cardinality(iv.running) <= 1 + (iv.js - iv.free) /\ iv.free >= 0 /\ iv.free <= iv.js ELSE Cardinality(iv.running) <= iv.j)
                      \* every token is back by the time ninja exits on any path of the loop
                      /\ (pc = "idle" /\ iv.js >= 0 /\ iv.msg # "crashed" => iv.free = iv.js /\ ~iv.imp)
                      /\ \A p \in {St(g, r.i).pool : r \in iv.running} : PoolDepthG(p) = 0 \/ Cardinality({r \in iv.running : St(g, r.i).pool = p}) <= PoolDepthG(p)
                      /\ \A a, b \in DOMAIN iv.started : a # b => iv.started[a] # iv.started[b]
                      /\ iv.msg # "stuck"
\* C06, no idle slot: while the failure budget lasts ninja does not sit in a wait (reaping is the only enabled step of the
\* loop) with a free -j slot and a statement that the plan still wants, that has not started, none of whose producers is
\* pending, and whose pool has room
Pending(i) == i \in DOMAIN iv.want /\ iv.want[i] \in {"start", "finish"}
RefStartable(i) == /\ Pending(i) /\ ~St(g, i).phony /\ i \notin ToS(iv.started)
                   /\ \A p \in Producers(g, iv.T0, iv.L0, i) : ~Pending(p)
                   /\ LET pl == St(g, i).pool IN PoolDepthG(pl) = 0 \/ Cardinality({r \in iv.running : St(g, r.i).pool = pl}) < PoolDepthG(pl)
NoIdle == (pc = "build" /\ iv.x = 1 /\ ~CanStart /\ iv.running # {} /\ Budget(iv) /\ (IF iv.js >= 0 THEN SlotFree(iv) ELSE Cardinality(iv.running) < iv.j) /\ ~kf)
            => ~\E i \in Ids(g) : RefStartable(i)
\* C07: whatever the crash point, a later successful build leaves the needed closure as a clean build would
\* (this is NoStale in behaviours with Crash steps); Recovers names the states it is about
Recovers == (Done /\ last.crashed /\ nenv = 0 /\ iv.code = 0 /\ ~kf /\ iv.msg \in {"ok", "nowork"}) =>
              LET clean == CleanContentN(g, T, L, iv.need) IN
              \A i \in {x \in iv.need : ~St(g, x).phony} : \A o \in Outs(St(g, i)) : disk[o].m > 0 /\ disk[o].c = clean[o]
\* C02
Converged == (Done /\ last.ok /\ ~kf /\ iv.msg = "nowork") => TRUE
SecondIsNoop == (pc = "build" /\ ~last.crashed /\ last.ok /\ last.targets = iv.targets /\ nenv = 0 /\ ~kf /\ iv.started = <<>> /\ iv.doneOK = {}) => FALSE
\* the known finding is a behaviour of the design (expected to be violated: TLC prints the witness)
KfUnreachable == ~kf
Termination == <>[](pc = "idle")
Constraint == clock <= MaxClock
=============================================================================
