--------------------------- MODULE DepsLogTrace ---------------------------
(***************************************************************************)
(* C09, code -> spec: operation sequences executed on the real DepsLog with *)
(* real files (harness/logh.cc) validated against DepsLogRef.               *)
(* Alarm level (p = "C09"): after every operation the dependencies the real *)
(* class returns for every output equal the reference table (most recently  *)
(* recorded, or what the reference loader recovers from the bytes that were *)
(* left on disk); after a load the file is cut to the last complete record; *)
(* recompaction drops exactly the outputs without a deps statement.         *)
(* Impl level (p = "IMPL"): bytes appended equal the writer model.          *)
(***************************************************************************)
EXTENDS DepsLogRef, Json, IOUtils
Tr == ndJsonDeserialize(IOEnv.TRACE)

VARIABLES l, exists, file, nodes, want, viol, stats, id
vars == <<l, exists, file, nodes, want, viol, stats, id>>
E == Tr[l]
Is(name) == l <= Len(Tr) /\ E.e = name
V(p, what) == [p |-> p, sc |-> id, run |-> 0, l |-> l, what |-> what, kf |-> ""]

Init == l = 1 /\ exists = FALSE /\ file = <<>> /\ nodes = <<>> /\ want = EmptyDeps /\ viol = {} /\ id = 0
        /\ stats = [seqs |-> 0, ops |-> 0, loads |-> 0, tears |-> 0]

TabOf(t) == [x \in {t[i].o : i \in DOMAIN t} |-> LET e == t[CHOOSE i \in DOMAIN t : t[i].o = x] IN [m |-> e.m, d |-> e.d]]

TReset == /\ Is("Reset")
          /\ exists' = FALSE /\ file' = <<>> /\ nodes' = <<>> /\ want' = EmptyDeps /\ id' = E.id
          /\ stats' = [stats EXCEPT !.seqs = @ + 1] /\ UNCHANGED viol /\ l' = l + 1

\* checks after a session start on bytes b (the file existed: ex); r = reference load of b
LoadChecks(tab, r, ex) ==
  (IF tab # r.deps THEN {V("C09", "dependencies returned after loading differ from the complete records before the first malformed one")} ELSE {})
  \cup (IF r.removed /\ E.exists /\ E.bytes # <<>> /\ E.bytes # Header THEN {V("C09", "log with a bad header was not discarded")} ELSE {})
  \cup (IF ex /\ ~r.removed /\ (~E.exists \/ Len(E.bytes) # r.goodlen) THEN {V("C09", "torn or damaged tail was not cut off at the last complete record")} ELSE {})
  \cup (IF E.status = 0 THEN {V("C09", "loading reported an error")} ELSE {})

TOp ==
  /\ Is("LogOp")
  /\ LET tab == TabOf(E.table) IN
     CASE E.op = "rec" ->
            LET w == WriteDeps(nodes, want, E.o, E.m, E.d)
                b0 == IF ~exists THEN Header ELSE file
                wantB == IF w.bytes = <<>> THEN file ELSE b0 \o w.bytes
                nw == [x \in DOMAIN want \cup {E.o} |-> IF x = E.o THEN [m |-> M8(E.m), d |-> E.d] ELSE want[x]]
            IN /\ want' = nw
               /\ nodes' = E.ids
               /\ viol' = viol \cup (IF ~E.ok \/ tab # nw THEN {V("C09", "dependencies returned are not the most recently recorded ones")} ELSE {})
                               \cup (IF E.bytes # wantB \/ E.ids # w.nodes THEN {V("IMPL", "bytes or ids after RecordDeps differ from the writer model")} ELSE {})
               /\ stats' = [stats EXCEPT !.ops = @ + 1]
       [] E.op = "reopen" ->
            LET r == LoadedDeps(exists, file) IN
            /\ want' = want /\ nodes' = E.ids
            /\ viol' = viol \cup (IF tab # want THEN {V("C09", "after a reload the dependencies differ from the most recently recorded ones (appends and reloads inconsistent)")} ELSE {})
                            \cup (IF exists /\ file # <<>> /\ ~r.removed /\ (r.bad \/ r.deps # want) THEN {V("C09", "the bytes on disk do not hold the recorded dependencies (a reload has to cut records)")} ELSE {})
                            \cup (IF E.status = 0 THEN {V("C09", "loading reported an error")} ELSE {})
            /\ stats' = [stats EXCEPT !.ops = @ + 1, !.loads = @ + 1]
       [] E.op \in {"tear", "damage"} ->
            LET b == SubSeq(file, 1, E.len) \o E.tail
                r == LoadedDeps(exists, b)
            IN /\ want' = r.deps
               /\ nodes' = E.ids
               /\ viol' = viol \cup LoadChecks(tab, r, exists)
               /\ stats' = [stats EXCEPT !.ops = @ + 1, !.loads = @ + 1, !.tears = @ + 1]
       [] E.op = "recompact" ->
            LET live == {E.live[i] : i \in DOMAIN E.live}
                nw == [o \in DOMAIN want \cap live |-> want[o]]
                r == LoadedDeps(E.exists, E.bytes)
            IN /\ want' = nw /\ nodes' = E.ids
               /\ viol' = viol \cup (IF tab # nw \/ ~E.ok THEN {V("C09", "recompaction did not keep exactly the entries whose output has a deps statement")} ELSE {})
                               \cup (IF r.bad \/ r.removed \/ r.deps # nw THEN {V("C09", "the recompacted file does not hold the kept entries")} ELSE {})
               /\ stats' = [stats EXCEPT !.ops = @ + 1, !.loads = @ + 1]
  /\ exists' = E.exists /\ file' = E.bytes
  /\ UNCHANGED id /\ l' = l + 1

TCrashed == /\ Is("Crashed")
            /\ viol' = viol \cup {V("C09", "the log class crashed or hung while executing the sequence")}
            /\ UNCHANGED <<exists, file, nodes, want, stats, id>> /\ l' = l + 1
TFlush == /\ l = Len(Tr) + 1
          /\ ndJsonSerialize(IOEnv.VIOL, <<[stats |-> stats, viol |-> SetToSeq(viol)]>>)
          /\ l' = l + 1 /\ UNCHANGED <<exists, file, nodes, want, viol, stats, id>>
Spec == Init /\ [][TReset \/ TOp \/ TCrashed \/ TFlush]_vars
TraceAccepted == TLCGet("stats").diameter = Len(Tr) + 2
=============================================================================
