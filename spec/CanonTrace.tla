----------------------------- MODULE CanonTrace -----------------------------
(***************************************************************************)
(* C14, code -> spec: recorded calls of the real CanonicalizePath (random   *)
(* long paths with arbitrary bytes) are checked against CanonRef!Canon and  *)
(* the laws.  One state per recorded call.                                  *)
(***************************************************************************)
EXTENDS CanonRef
Tr == ndJsonDeserialize(IOEnv.TRACE)
VARIABLES l, viol
Init == l = 1 /\ viol = {}
Call == /\ l <= Len(Tr)
        /\ LET e == Tr[l]
               c == Canon(e.in)
               bad == e.out # c \/ e.problem # "" \/ Canon(c) # c \/ Len(c) > Len(e.in) \/ IsAbs(c) # IsAbs(e.in)
           IN viol' = IF bad THEN viol \cup {[p |-> "C14", l |-> l, what |-> "CanonicalizePath disagrees with the reference or breaks a law", kf |-> ""]} ELSE viol
        /\ l' = l + 1
Flush == /\ l = Len(Tr) + 1
         /\ ndJsonSerialize(IOEnv.VIOL, <<[stats |-> [calls |-> Len(Tr)], viol |-> SetToSeq(viol)]>>)
         /\ l' = l + 1 /\ UNCHANGED viol
Spec == Init /\ [][Call \/ Flush]_<<l, viol>>
TraceAccepted == TLCGet("stats").diameter = Len(Tr) + 2
=============================================================================
