SPECIFICATION Spec
INVARIANT NameOK
INVARIANT ListOK
INVARIANT LinesOK
CHECK_DEADLOCK FALSE
