------------------------------- MODULE Lexer -------------------------------
(***************************************************************************)
(* C12 at character level: the $-escapes, line continuations, CRLF and the  *)
(* separators of paths and values.  A reference reader of ninja's two       *)
(* string contexts, written from the manual ("Lexical syntax"):             *)
(*   value  after "name =": everything up to the end of the line; spaces,   *)
(*          ':' and '|' are ordinary characters;                            *)
(*   path   in build / default lines: ends at an unescaped space, ':', '|'  *)
(*          or the end of the line; white space after it is skipped.        *)
(* In both: "$$" is '$', "$ " a space, "$:" a colon, "$^" a newline,        *)
(* "$" newline (LF or CRLF) plus the following spaces continue the line,    *)
(* "${name}" and "$name" are variable references (the braceless form has    *)
(* no dots), any other '$' is an error, a lone CR is an error, the end of   *)
(* the input inside a string is an error.                                   *)
(* Every string over the alphabet up to the bound is a TLC state (the       *)
(* reference is total) and an implementation test of the real Lexer:        *)
(*   value mode  ReadVarValue, then the kind of the next token;             *)
(*   path mode   ReadPath repeatedly until an empty path, then the kind of  *)
(*               the next token.                                            *)
(* Variable references are rendered <name> in the results.                  *)
(***************************************************************************)
EXTENDS Naturals, Sequences, SequencesExt, FiniteSets, TLC, Json, IOUtils

A == 97      \* 'a'
DOL == 36
LB == 123
RB == 125
SP == 32
COL == 58
BAR == 124
LF == 10
CR == 13
HAT == 94
DOT == 46
LT == 60
GT == 62
Alphabet == {A, DOL, LB, RB, SP, COL, BAR, LF, CR, HAT, DOT}

IsSimple(c) == c = A                      \* [a-zA-Z0-9_-] within the alphabet
IsVarCh(c) == c \in {A, DOT}              \* [a-zA-Z0-9_.-]
At(t, i) == IF i <= Len(t) THEN t[i] ELSE 0
\* length of the run of characters of S starting at i
RECURSIVE Run(_, _, _)
Run(t, i, S) == IF i <= Len(t) /\ t[i] \in S THEN 1 + Run(t, i + 1, S) ELSE 0
Simple == {A}
VarCh == {A, DOT}

Err(i) == [ok |-> FALSE, s |-> <<>>, i |-> i]
\* reads one string starting at i; returns [ok, s (characters, references as <name>), i (position after it)]
RECURSIVE Read(_, _, _, _)
Read(t, i, path, acc) ==
  LET c == At(t, i) IN
  IF c = 0 THEN Err(i)                                                       \* end of input inside a string
  ELSE IF c = CR THEN (IF At(t, i + 1) = LF THEN [ok |-> TRUE, s |-> acc, i |-> IF path THEN i ELSE i + 2] ELSE Err(i))
  ELSE IF c = LF THEN [ok |-> TRUE, s |-> acc, i |-> IF path THEN i ELSE i + 1]
  ELSE IF c \in {SP, COL, BAR} THEN (IF path THEN [ok |-> TRUE, s |-> acc, i |-> i] ELSE Read(t, i + 1, path, Append(acc, c)))
  ELSE IF c # DOL THEN Read(t, i + 1, path, Append(acc, c))
  ELSE LET d == At(t, i + 1) IN
       IF d = DOL THEN Read(t, i + 2, path, Append(acc, DOL))
       ELSE IF d = SP THEN Read(t, i + 2, path, Append(acc, SP))
       ELSE IF d = COL THEN Read(t, i + 2, path, Append(acc, COL))
       ELSE IF d = HAT THEN Read(t, i + 2, path, Append(acc, LF))
       ELSE IF d = LF THEN Read(t, i + 2 + Run(t, i + 2, {SP}), path, acc)
       ELSE IF d = CR /\ At(t, i + 2) = LF THEN Read(t, i + 3 + Run(t, i + 3, {SP}), path, acc)
       ELSE IF d = LB THEN
            LET n == Run(t, i + 2, VarCh) IN
            IF n > 0 /\ At(t, i + 2 + n) = RB THEN Read(t, i + 3 + n, path, acc \o <<LT>> \o SubSeq(t, i + 2, i + 1 + n) \o <<GT>>)
            ELSE Err(i)
       ELSE IF IsSimple(d) THEN
            LET n == Run(t, i + 1, Simple) IN Read(t, i + 1 + n, path, acc \o <<LT>> \o SubSeq(t, i + 1, i + n) \o <<GT>>)
       ELSE Err(i)

\* white space after a path: spaces and continuations
RECURSIVE Eat(_, _)
Eat(t, i) == IF At(t, i) = SP THEN Eat(t, i + 1)
             ELSE IF At(t, i) = DOL /\ At(t, i + 1) = LF THEN Eat(t, i + 2)
             ELSE IF At(t, i) = DOL /\ At(t, i + 1) = CR /\ At(t, i + 2) = LF THEN Eat(t, i + 3)
             ELSE i

\* the kind of the token at i
Tok(t, i) ==
  LET k == Run(t, i, {SP})  c == At(t, i + k) IN
  IF c = LF \/ (c = CR /\ At(t, i + k + 1) = LF) THEN "newline"
  ELSE IF k > 0 THEN "indent"
  ELSE IF c = 0 THEN "eof"
  ELSE IF c = COL THEN "':'"
  ELSE IF c = BAR THEN (IF At(t, i + 1) = BAR THEN "'||'" ELSE "'|'")
  ELSE IF IsVarCh(c) THEN "identifier"
  ELSE "lexing error"

Value(t) == LET r == Read(t, 1, FALSE, <<>>) IN IF r.ok THEN [ok |-> TRUE, strs |-> <<r.s>>, next |-> Tok(t, r.i)] ELSE [ok |-> FALSE, strs |-> <<>>, next |-> ""]
RECURSIVE Paths(_, _, _)
Paths(t, i, acc) ==
  LET r == Read(t, i, TRUE, <<>>) IN
  IF ~r.ok THEN [ok |-> FALSE, strs |-> <<>>, next |-> ""]
  \* an empty path (nothing, or only continuations) ends the list; the white space after it has been skipped
  ELSE IF r.s = <<>> THEN [ok |-> TRUE, strs |-> acc, next |-> Tok(t, Eat(t, r.i))]
  ELSE Paths(t, Eat(t, r.i), Append(acc, r.s))
PathsOf(t) == Paths(t, 1, <<>>)

\* ---- the input space -------------------------------------------------------------------------------
CONSTANT MaxLen
VARIABLE str
Init == str = <<>>
Next == Len(str) < MaxLen /\ \E c \in Alphabet : str' = Append(str, c)
Spec == Init /\ [][Next]_str
\* the reference gives a verdict for every string in both contexts; a successful value read never contains a raw separator of
\* the line structure, a path never contains an unescaped separator
Total == LET v == Value(str)  p == PathsOf(str) IN
         /\ (v.ok => \A k \in DOMAIN v.strs[1] : v.strs[1][k] # CR)
         /\ (p.ok => \A q \in DOMAIN p.strs : p.strs[q] # <<>>)

RECURSIVE AllStr(_)
AllStr(n) == IF n = 0 THEN {<<>>} ELSE LET S == AllStr(n - 1) IN S \cup {Append(s, ch) : s \in {x \in S : Len(x) = n - 1}, ch \in Alphabet}
ExpLen == IF "EXPLEN" \in DOMAIN IOEnv THEN atoi(IOEnv.EXPLEN) ELSE 0
ASSUME ExpLen = 0 \/ ndJsonSerialize(IOEnv.OUT, SetToSeq({[in |-> s, value |-> Value(s), paths |-> PathsOf(s)] : s \in AllStr(ExpLen)}))
=============================================================================
