----------------------------- MODULE RefTrace -----------------------------
(***************************************************************************)
(* Trace specification binding executions of the real ninja classes        *)
(* (harness H1 / H2, events of DESIGN.md 4.1) to the reference semantics    *)
(* NinjaRef.  One TLC run validates thousands of executions (Reset event).  *)
(* Every action is total: a monitor that fails does not stop the            *)
(* validation, it adds a record to `viol`, which is written out as JSON     *)
(* when the trace has been consumed.  Acceptance = the whole trace was      *)
(* consumed (postcondition on the diameter).                                *)
(***************************************************************************)
EXTENDS CleanRef, Json, IOUtils

TraceFile == IF "TRACE" \in DOMAIN IOEnv THEN IOEnv.TRACE ELSE "trace.ndjson"
OutFile == IF "VIOL" \in DOMAIN IOEnv THEN IOEnv.VIOL ELSE "viol.ndjson"
Tr == ndJsonDeserialize(TraceFile)

VARIABLES l,      \* next line of the trace
          meta,   \* [sc, run] of the execution being validated
          g,      \* current manifest graph
          L, F, FT, \* ghost history (NinjaRef); FT: last failure touched its outputs
          iv,     \* state of the current invocation
          prev,   \* summary of the previous invocation (for C02)
          relax,  \* TRUE after a crash or interrupt: the exactness monitors (C02, C03, -k completeness) are off
          taint,  \* TRUE after a deviation attributed to a known finding: engine monitors off until the next Reset
          afterCrash, \* the previous invocation died or was interrupted
          tw,     \* twin comparison: [mode, kind, k, sums]: summaries of the declared-variant run (C10, C11)
          viol,   \* violation records found so far
          stats   \* counters for the evidence
vars == <<l, meta, g, L, F, FT, iv, prev, relax, taint, afterCrash, tw, viol, stats>>

NoIv == [active |-> FALSE]
NoLogs == [blog |-> <<>>, dlog |-> <<>>]
NoPrev == [ok |-> FALSE, targets |-> {}]
NoTw == [mode |-> 0, kind |-> "", k |-> 0, sums |-> <<>>, skip |-> FALSE]
EmptyG == [srcs |-> <<>>, pools |-> <<>>, stmts |-> <<>>]
Stats0 == [execs |-> 0, invokes |-> 0, starts |-> 0, nontrivial |-> 0, kf |-> 0, cyclic |-> 0, died |-> 0, interrupted |-> 0, failing |-> 0, dry |-> 0, twins |-> 0, cleans |-> 0, tools |-> 0]

Init == /\ l = 1 /\ meta = [sc |-> "", run |-> 0, eskip |-> {}, logs |-> NoLogs, ddbad |-> {}] /\ g = EmptyG
        /\ L = <<>> /\ F = {} /\ FT = {} /\ iv = NoIv /\ prev = NoPrev
        /\ relax = FALSE /\ taint = FALSE /\ afterCrash = FALSE /\ tw = NoTw /\ viol = {} /\ stats = Stats0

E == Tr[l]
Is(name) == l <= Len(Tr) /\ E.e = name
V(p, what, kf) == [p |-> p, sc |-> meta.sc, run |-> meta.run, l |-> l, what |-> what, kf |-> kf]
Step == l' = l + 1

PoolDepth(p) == IF p = "console" THEN 1
                ELSE IF \E i \in DOMAIN g.pools : g.pools[i].name = p
                     THEN g.pools[CHOOSE i \in DOMAIN g.pools : g.pools[i].name = p].depth
                     ELSE 0

---------------------------------------------------------------------------
TReset ==
  /\ Is("Reset")
  \* ddbad: dyndep files whose forced text is invalid by spec/Dyndep.tla (C11); the engine monitors are off for such executions
  /\ meta' = [sc |-> E.sc, run |-> E.run, eskip |-> {}, logs |-> NoLogs, ddbad |-> IF "ddbad" \in DOMAIN E THEN ToS(E.ddbad) ELSE {}]
  /\ g' = E.g
  /\ L' = [i \in 1..Len(E.g.stmts) |-> LastNone]
  /\ F' = {} /\ FT' = {} /\ iv' = NoIv /\ prev' = NoPrev /\ relax' = FALSE /\ afterCrash' = FALSE
  /\ taint' = ("ddbad" \in DOMAIN E /\ E.ddbad # <<>>)
  /\ stats' = [stats EXCEPT !.execs = @ + 1]
  /\ tw' = IF E.tw = 1 THEN [mode |-> 1, kind |-> E.twk, k |-> 0, sums |-> <<>>, skip |-> FALSE]
            ELSE IF E.tw = 2 THEN [tw EXCEPT !.mode = 2, !.k = 0, !.skip = FALSE] ELSE NoTw
  /\ UNCHANGED viol /\ Step

TEnv ==
  /\ Is("Env")
  /\ g' = E.g
  /\ L' = CASE E.op = "droplog"  -> [i \in DOMAIN L |-> [L[i] EXCEPT !.has = FALSE]]
            [] E.op = "dropdeps" -> [i \in DOMAIN L |-> IF g.stmts[i].deps \in {"gcc", "msvc"} THEN [L[i] EXCEPT !.recok = FALSE] ELSE L[i]]
            [] E.op = "setstmts" -> [i \in 1..Len(E.g.stmts) |->
                                       IF i \in DOMAIN L /\ i \in DOMAIN g.stmts /\ g.stmts[i].outs = E.g.stmts[i].outs
                                       THEN (IF g.stmts[i].deps = E.g.stmts[i].deps THEN L[i] ELSE [L[i] EXCEPT !.recok = FALSE])   \* a switch of deps mode leaves no usable record
                                       ELSE LastNone]
            [] OTHER -> L
  /\ F' = IF E.op = "setstmts" THEN {} ELSE F
  \* padding the logs with copies of their own records changes nothing a build may depend on (C02 still applies)
  /\ prev' = IF E.op = "inflate" THEN prev ELSE NoPrev
  /\ UNCHANGED <<meta, FT, iv, relax, taint, afterCrash, tw, viol, stats>> /\ Step

\* -- Invoke ----------------------------------------------------------------
TInvoke ==
  /\ Is("Invoke")
  /\ LET T == E.tree
         tg == IF E.targets = <<>> THEN RootOuts(g) ELSE ToS(E.targets)
         need == Needed(g, T, L, tg)
         acyc == AcyclicN(g, T, L, need)
         exp == IF acyc THEN ExpectedRun(g, T, L, F, tg) ELSE {}
         expS == IF acyc THEN ExpectedRunSkip(g, T, L, F, tg) ELSE {}
         expNoF == IF acyc /\ F # {} THEN ExpectedRun(g, T, L, {}, tg) ELSE exp
         missingSrc == \E i \in need : \E f \in ManIn(St(g, i)) \cup ToS(St(g, i).oo) :
                          Prod(g, f) = 0 /\ ~Exists(T, f)
         \* the cases in which the report is owed: a declared explicit / implicit input of a needed statement, or an order-only
         \* input of a statement that has to run (for a statement with nothing to do a vanished order-only input is moot);
         \* missingSrc, the wider notion, is what excuses an error exit
         mustMiss == \E i \in need : \/ \E f \in ToS(St(g, i).ex) \cup ToS(St(g, i).im) : Prod(g, f) = 0 /\ ~Exists(T, f)
                                     \/ i \in exp /\ \E f \in ToS(St(g, i).oo) : Prod(g, f) = 0 /\ ~Exists(T, f)
     IN iv' = [active |-> TRUE, targets |-> tg, j |-> E.j, k |-> E.k, dry |-> E.dry, tok |-> E.tok,
               fail |-> E.fail, T0 |-> T, acyc |-> acyc, need |-> need, cyc |-> IF acyc THEN {} ELSE CycleStmts(g, T, L, need), exp |-> exp, expS |-> expS,
               expNoF |-> expNoF, kfT |-> (exp \ expNoF) \cap FT,
               missingSrc |-> missingSrc, mustMiss |-> mustMiss, editrun |-> E.editrun, intr |-> E.intr,
               started |-> <<>>, doneOK |-> {}, failed |-> {}, codes |-> {}, run |-> {}, nfail |-> 0,
               skipped |-> {}, ticks |-> {}, stStarted |-> {}, stFinished |-> {}, cnt |-> [tot |-> 0, st |-> 0, fin |-> 0],
               interrupted |-> FALSE, killed |-> {}, partial |-> {}, startsAfterBudget |-> 0, loaded |-> NoLogs, kfSeen |-> ""]
  /\ stats' = [stats EXCEPT !.invokes = @ + 1, !.cyclic = @ + (IF AcyclicN(g, E.tree, L, Needed(g, E.tree, L, IF E.targets = <<>> THEN RootOuts(g) ELSE ToS(E.targets))) THEN 0 ELSE 1),
                             !.failing = @ + (IF Len(E.fail) > 0 THEN 1 ELSE 0), !.dry = @ + (IF E.dry THEN 1 ELSE 0)]
  /\ UNCHANGED <<meta, g, L, F, FT, prev, relax, taint, afterCrash, tw, viol>> /\ Step

\* -- hook events from ninja ---------------------------------------------------
BudgetLeft == iv.k = 0 \/ iv.nfail < iv.k
PoolRoom(i) == LET p == St(g, i).pool IN
               PoolDepth(p) = 0 \/ Cardinality({r \in iv.run : St(g, r).pool = p}) < PoolDepth(p)
\* The graph as far as it can be known now: dyndep information of files whose producer still has
\* work to do is not available yet.
RECURSIVE UpFrom(_, _)
UpFrom(S, fuel) == LET nxt == S \cup UNION {DepOn(g, iv.T0, L, j) : j \in S} IN IF nxt = S \/ fuel = 0 THEN S ELSE UpFrom(nxt, fuel - 1)
UpstreamOf(i) == UpFrom(DepOn(g, iv.T0, L, i), Len(g.stmts) + 1)
DdPending(i) == LET s == St(g, i)  p == Prod(g, s.dd) IN
                s.dd # "" /\ p # 0 /\ \E q \in {p} \cup UpstreamOf(p) : q \in iv.exp /\ q \notin iv.doneOK
GKnown == [g EXCEPT !.stmts = [i \in DOMAIN g.stmts |-> IF DdPending(i) THEN [g.stmts[i] EXCEPT !.ddi = <<>>, !.ddo = <<>>] ELSE g.stmts[i]]]
MayStart(i) ==
  /\ i \in iv.exp /\ i \notin ToS(iv.started)
  /\ i \in Needed(GKnown, iv.T0, L, iv.targets)
  /\ i \notin Downstream(g, iv.T0, L, iv.failed)
  \* everything it transitively needs (any input kind) that had work to do is done
  /\ \A p \in UpstreamOf(i) : p \in iv.exp => p \in iv.doneOK
  /\ PoolRoom(i)
  \* a phony statement that is bound to a pool takes its turn in that pool like a command: what lies behind it is not
  \* startable while the pool is full
  /\ \A p \in UpstreamOf(i) : St(g, p).phony => PoolRoom(p)

\* statements whose recorded dependencies ninja did not consult in this invocation (hook at the call site)
SkipRec == {i \in iv.skipped : UsesDeps(St(g, i)) /\ L[i].rec # {}}
THook ==
  /\ Is("H")
  /\ LET idle == iv.active /\ E.h = "Wait" /\ ~taint /\ iv.acyc /\ ~iv.dry
                  /\ BudgetLeft /\ Cardinality(iv.run) < (IF iv.tok < 0 THEN iv.j ELSE 1 + iv.tok)
                  /\ \E i \in Ids(g) : MayStart(i)
         ms == {i \in Ids(g) : MayStart(i)}
         kfw == IF ms \subseteq iv.kfT THEN "KF-FAIL-TOUCHED"
                ELSE IF SkipRec # {} /\ ms \subseteq (iv.exp \ iv.expS) THEN "KF-DEPS-SKIPPED" ELSE ""
     IN /\ viol' = IF idle THEN viol \cup {V("C06", "waits although a command is startable and a slot is free", kfw)} ELSE viol
        /\ iv' = IF iv.active /\ E.h = "DepsSkipped" /\ E.s # 0 THEN [iv EXCEPT !.skipped = @ \cup {E.s}]
                  ELSE IF idle /\ kfw # "" THEN [iv EXCEPT !.kfSeen = kfw] ELSE iv
  /\ UNCHANGED <<meta, g, L, F, FT, prev, relax, taint, afterCrash, tw, stats>> /\ Step

TStatus ==
  /\ Is("St")
  /\ LET c == [tot |-> E.tot, st |-> E.st, fin |-> E.fin]
         bad == c.st > c.tot \/ c.fin > c.st
     IN /\ iv' = IF iv.active
                 THEN [iv EXCEPT !.cnt = c,
                                 !.stStarted = IF E.c = "started" THEN @ \cup {E.s} ELSE @,
                                 !.stFinished = IF E.c = "finished" THEN @ \cup {E.s} ELSE @]
                 ELSE iv
        /\ viol' = IF bad /\ E.c \in {"started", "finished"}
                   THEN viol \cup {V("C20", "progress counter exceeds its bound", "")} ELSE viol
  /\ UNCHANGED <<meta, g, L, F, FT, prev, relax, taint, afterCrash, tw, stats>> /\ Step

\* -- Start ---------------------------------------------------------------------
TStart ==
  /\ Is("Start")
  /\ LET i == E.s
         s == St(g, i)
         T == iv.T0
         runNow == ToS(E.run)
         prods == Producers(g, T, L, i)
         notReady == {p \in prods : p \in iv.exp /\ p \notin iv.doneOK}
         \* producers not predicted to run but visibly out of date would be a C03/C01 matter
         poolBad == \E p \in {St(g, r).pool : r \in runNow} :
                       PoolDepth(p) > 0 /\ Cardinality({r \in runNow : St(g, r).pool = p}) > PoolDepth(p)
         LM == LNoRec(L, {i})
         notReadyM == notReady \cap Producers(g, T, LM, i)
         kf4 == IF notReady \subseteq iv.kfT THEN "KF-FAIL-TOUCHED"
                ELSE IF notReadyM \subseteq iv.kfT /\ i \in iv.skipped THEN "KF-DEPS-SKIPPED"
                ELSE IF SkipRec # {} /\ notReady \subseteq (iv.exp \ iv.expS) THEN "KF-DEPS-SKIPPED" ELSE ""
         v4 == (IF notReady # {} /\ ~taint
                THEN {V("C04", "command started before a producer of one of its inputs finished", kf4)} ELSE {})
               \cup (IF ~E.dirs THEN {V("C04", "output or depfile directory missing at start", "")} ELSE {})
               \cup (IF s.rsp /\ E.rsp # s.rsptxt THEN {V("C16", "response file does not hold the declared content at start", "")} ELSE {})
         v5 == (IF i \in Downstream(g, T, L, iv.failed) THEN {V("C05", "command downstream of a failed command was started", "")} ELSE {})
               \cup (IF ~BudgetLeft THEN {V("C05", "command started after the failure budget was used up", "")} ELSE {})
               \cup (IF iv.mustMiss THEN {V("C05", "command started although a declared source is missing", "")} ELSE {})
         v6 == (IF iv.tok < 0 /\ Cardinality(runNow) > iv.j THEN {V("C06", "more commands running than -j allows", "")} ELSE {})
               \cup (IF poolBad THEN {V("C06", "more commands running in a pool than its depth", "")} ELSE {})
               \cup (IF i \in ToS(iv.started) THEN {V("C06", "command started twice in one invocation", "")} ELSE {})
               \cup (IF iv.tok >= 0 /\ E.fifo >= 0 /\ Cardinality(runNow) > 1 + (iv.tok - E.fifo)
                     THEN {V("C06", "more commands running than jobserver tokens held", "")} ELSE {})
         v11 == IF s.dd # "" /\ s.dd \in meta.ddbad THEN {V("C11", "a command was started although its dyndep file is malformed or inconsistent", "")} ELSE {}
     IN /\ viol' = viol \cup v4 \cup v5 \cup v6 \cup v11
        /\ iv' = [iv EXCEPT !.started = Append(@, i), !.run = runNow, !.ticks = @ \cup {<<i, E.t>>},
                             !.kfSeen = IF \E x \in v4 \cup v5 \cup v6 : x.kf # "" THEN (CHOOSE x \in v4 \cup v5 \cup v6 : x.kf # "").kf ELSE @]
        /\ L' = L
  /\ stats' = [stats EXCEPT !.starts = @ + 1]
  /\ UNCHANGED <<meta, g, F, FT, prev, relax, taint, afterCrash, tw>> /\ Step

TEditRun ==
  /\ Is("EditRun")
  /\ UNCHANGED <<meta, g, L, F, FT, iv, prev, relax, taint, afterCrash, tw, viol, stats>> /\ Step

StartTick(i) == LET ps == {p \in iv.ticks : p[1] = i} IN
                IF ps = {} THEN 0 ELSE (CHOOSE p \in ps : \A q \in ps : q[2] <= p[2])[2]

\* -- Done ----------------------------------------------------------------------
TDone ==
  /\ Is("Done")
  /\ LET i == E.s
         s == St(g, i)
         ok == E.code = 0
     IN /\ iv' = [iv EXCEPT !.run = ToS(E.run),
                            !.doneOK = IF ok THEN @ \cup {i} ELSE @,
                            !.failed = IF ok THEN @ ELSE @ \cup {i},
                            !.codes = IF ok THEN @ ELSE @ \cup {E.code},
                            !.nfail = IF ok THEN @ ELSE @ + 1]
        /\ L' = IF ok THEN [L EXCEPT ![i] = [has |-> TRUE, vstr |-> s.vstr, start |-> StartTick(i), end |-> E.t,
                                             rec |-> ToS(HdrsOf(s, iv.T0)), recok |-> TRUE, unsure |-> FALSE]]
                ELSE L
        /\ F' = IF ok THEN F \ {i} ELSE F \cup {i}
        \* (FT: the failing command rewrote outputs - signature of KF-FAIL-TOUCHED; a depfile alone does not count)
        /\ FT' = IF ok THEN FT \ {i} ELSE IF \E k \in DOMAIN E.wrote : E.wrote[k].n \in Outs(s) THEN FT \cup {i} ELSE FT \ {i}
  /\ UNCHANGED <<meta, g, prev, relax, taint, afterCrash, tw, viol, stats>> /\ Step

TInterrupt ==
  /\ Is("Interrupt")
  /\ iv' = [iv EXCEPT !.interrupted = TRUE]
  /\ UNCHANGED <<meta, g, L, F, FT, prev, relax, taint, afterCrash, tw, viol, stats>> /\ Step

TAbort ==
  /\ Is("Abort")
  /\ iv' = IF iv.active THEN [iv EXCEPT !.killed = @ \cup {E.killed[x].s : x \in DOMAIN E.killed},
                                        !.partial = @ \cup {E.killed[x].s : x \in {y \in DOMAIN E.killed : E.killed[y].partial}}, !.run = {}] ELSE iv
  /\ UNCHANGED <<meta, g, L, F, FT, prev, relax, taint, afterCrash, tw, viol, stats>> /\ Step

TLoaded ==
  /\ Is("Loaded")
  /\ iv' = IF iv.active THEN [iv EXCEPT !.loaded = [blog |-> E.blog, dlog |-> E.dlog]] ELSE iv
  /\ UNCHANGED <<meta, g, L, F, FT, prev, relax, taint, afterCrash, tw, viol, stats>> /\ Step

\* ninja dies at a named point.  Between the build-log record and the deps-log record of a command that has just finished
\* (points fin-logappend, buildlog-record) the log record exists and the dependency record certainly does not: the statement
\* has no recorded dependencies any more (this is knowledge about the history, not about ninja)
TCrashEv ==
  /\ Is("Crash")
  /\ LET fin == IF iv.active THEN {i \in iv.doneOK : \A j \in iv.doneOK : L[j].end <= L[i].end} ELSE {}
         hit == "point" \in DOMAIN E /\ E.point \in {"fin-logappend", "buildlog-record"}
     IN L' = [i \in DOMAIN L |-> IF hit /\ i \in fin /\ St(g, i).deps \in {"gcc", "msvc"} THEN [L[i] EXCEPT !.rec = {}, !.recok = FALSE] ELSE L[i]]
  /\ UNCHANGED <<meta, g, F, FT, iv, prev, relax, taint, afterCrash, tw, viol, stats>> /\ Step

TSkip ==
  /\ l <= Len(Tr) /\ E.e \in {"Scanned", "Msg", "PoolsAtEnd", "SpawnFail", "Logs", "EndRun", "Printer", "Out"}
  /\ UNCHANGED <<meta, g, L, F, FT, iv, prev, relax, taint, afterCrash, tw, viol, stats>> /\ Step

\* -- Exit ----------------------------------------------------------------------
HasRecWork(S) == \E i \in S : UsesDeps(St(g, i))

TExit ==
  /\ Is("Exit")
  /\ LET T == E.tree
         startedSet == ToS(iv.started)
         ok == E.code = 0
         clean == IF iv.acyc THEN CleanContentN(g, T, L, iv.need) ELSE Base(g, T)
         stale == {f \in UNION {Outs(St(g, i)) : i \in {x \in iv.need : ~St(g, x).phony}} : Ct(T, f) # clean[f]}
         skipStmts == {i \in iv.skipped : UsesDeps(St(g, i)) /\ L[i].rec # {}}
         \* statements whose recorded dependencies were not consulted, in this or an earlier invocation of the history
         eskip == meta.eskip \cup skipStmts
         downSkip == Downstream(g, iv.T0, L, eskip)
         diffBySkip(A, B) == eskip # {} /\ ((A \ B) \cup (B \ A)) \subseteq downSkip
         dev03 == IF ok THEN startedSet # iv.exp ELSE ~(startedSet \subseteq iv.exp)
         \* attribution to the known finding KF-DEPS-SKIPPED (DESIGN.md Appendix A)
         \* the commands are exactly those predicted when recorded dependencies of already-dirty statements are ignored
         kfSkipOf(A) == /\ iv.expS # iv.exp /\ skipStmts # {}
                        /\ IF ok THEN A = iv.expS ELSE A \subseteq iv.expS
         kfSkip == kfSkipOf(startedSet)
         exact == iv.acyc /\ ~relax /\ ~taint /\ ~iv.dry /\ ~iv.missingSrc /\ ~iv.interrupted
         kfTouch == /\ iv.kfT # {}
                    /\ IF ok THEN startedSet = iv.expNoF ELSE startedSet \subseteq iv.expNoF
         \* a deviation carries a known finding's name if the invocation shows its signature: the started set is the one the
         \* finding predicts, or an ordering / idle violation with its signature was already seen in this invocation
         kf == IF kfTouch THEN "KF-FAIL-TOUCHED" ELSE IF kfSkip THEN "KF-DEPS-SKIPPED" ELSE iv.kfSeen
         \* (also: a successful build that leaves out a statement which failed before and has not succeeded since)
         v05f == IF exact /\ ((iv.kfT # {} /\ ~(iv.kfT \subseteq startedSet) /\ (ok \/ ~(startedSet \subseteq iv.exp) \/ kfTouch))
                              \/ (ok /\ (F \cap iv.exp) \ startedSet # {}))
                 THEN {V("C05", "a command that failed is not retried by the next build", kf)} ELSE {}
         v03 == IF exact /\ dev03
                THEN {V("C03", IF startedSet \subseteq iv.exp THEN "a command that had to run was not run"
                               ELSE "a command ran although nothing it depends on changed",
                        kf)} ELSE {}
         \* stale files that lie downstream of a statement whose recorded dependencies were not consulted
         staleBySkip == skipStmts # {} /\ stale \subseteq UNION {Outs(St(g, i)) : i \in Downstream(g, iv.T0, L, skipStmts)}
         kf01 == IF kf # "" THEN kf ELSE IF (relax \/ afterCrash) /\ staleBySkip THEN "KF-DEPS-SKIPPED" ELSE ""
         v01 == IF iv.acyc /\ ok /\ ~iv.editrun /\ ~iv.dry /\ stale # {} /\ ~taint
                THEN {V(IF afterCrash \/ relax THEN "C07" ELSE "C01", "stale output after a successful build", kf01),
                      V("C01", "stale output after a successful build", kf01)} ELSE {}
         v02 == IF prev.ok /\ prev.targets = iv.targets /\ ~iv.dry /\ ~taint /\ (startedSet # {} \/ E.mc # "nowork")
                THEN {V("C02", "second build of the same targets was not a no-op", kf)} ELSE {}
         \* C05: exit status and what is started/finished under -k
         anyFail == iv.failed # {}
         v05a == IF anyFail /\ (ok \/ E.code \notin iv.codes) /\ ~iv.interrupted
                 THEN {V("C05", "exit status is not the status of a failed command", "")} ELSE {}
         v05b == IF ~anyFail /\ ~ok /\ iv.acyc /\ E.mc # "cycle" /\ ~iv.missingSrc /\ ~iv.interrupted /\ E.mc \notin {"dyndep", "other", "parse"}
                 THEN {V("C05", "non-zero exit without any failed command", "")} ELSE {}
         notDown == iv.exp \ Downstream(g, iv.T0, L, iv.failed)
         v05c == IF exact /\ anyFail /\ BudgetLeft /\ ~(notDown \subseteq startedSet)
                 THEN {V("C05", "with failure budget left, a command independent of the failures was not started", kf)} ELSE {}
         v05d == IF iv.run # {} /\ ~iv.interrupted
                 THEN {V("C05", "ninja exited while commands were still running", "")} ELSE {}
         v05e == IF iv.mustMiss /\ iv.acyc /\ (ok \/ E.mc # "missing")
                 THEN {V("C05", "missing source without rule was not reported", "")} ELSE {}
         v06 == (IF iv.tok >= 0 /\ E.fifo # iv.tok THEN {V("C06", "jobserver tokens not all returned at exit", "")} ELSE {})
                \cup (IF E.mc = "stuck" THEN {V("C06", "build ended with 'stuck'", "")} ELSE {})
         v16 == IF \E i \in iv.doneOK : St(g, i).rsp /\ Exists(T, St(g, i).rsppath)
                THEN {V("C16", "response file not removed after the command succeeded", "")}
                ELSE IF \E i \in iv.failed : St(g, i).rsp /\ St(g, i).rsppath # "" /\ ~Exists(T, St(g, i).rsppath)
                THEN {V("C16", "response file of a failed command was removed", "")} ELSE {}
         v20 == (IF ok /\ ~iv.dry /\ (iv.cnt.fin # iv.cnt.tot \/ iv.cnt.st # iv.cnt.tot) /\ E.mc = "ok"
                 THEN {V("C20", "after a successful build finished/started differ from the total", "")} ELSE {})
                \cup (IF ~iv.interrupted /\ (iv.stStarted \ iv.killed) # (iv.stFinished \ iv.killed)   \* commands killed when the build is abandoned on an error are not reported
                      THEN {V("C20", "a started command was never reported finished", "")} ELSE {})
         v07 == (IF iv.interrupted /\ (E.code # 130 \/ Exists(T, ".ninja_lock"))
                 THEN {V("C07", "interrupt: wrong exit status or lock file left behind", "")} ELSE {})
                \cup (IF iv.interrupted /\ \E i \in iv.partial : \E o \in Outs(St(g, i)) : Exists(T, o)
                      THEN {V("C07", "interrupt: an output that a killed command had already modified was not removed", "")} ELSE {})
                \cup (IF iv.interrupted /\ \E i \in iv.killed : St(g, i).deps \in {"depfile", "gcc"} /\ \E o \in Outs(St(g, i)) \cup {DepfilePath(St(g, i))} : Exists(T, o)
                      THEN {V("C07", "interrupt: outputs or depfile of a killed depfile command were not removed", "")} ELSE {})
                \cup (IF afterCrash /\ ~ok /\ iv.fail = <<>> /\ ~iv.interrupted /\ iv.acyc /\ ~iv.missingSrc
                      THEN {V("C07", "the build after a crash or interrupt did not succeed", "")} ELSE {})
         \* twin comparison (C10 / C11): same commands, same result, same final contents as the variant
         \* with the discovered information written into the manifest
         outsNow == [f \in {x \in AllOuts(g) : \A i \in Ids(g) : St(g, i).mkdd # x} |-> Ct(T, f)]
         sum == [started |-> startedSet, ok |-> ok, missing |-> E.mc = "missing", outs |-> outsNow]
         twp == IF tw.kind = "dyn" THEN "C11" ELSE "C10"
         ref == tw.sums[tw.k + 1]
         cmp == tw.mode = 2 /\ ~tw.skip /\ tw.k + 1 <= Len(tw.sums) /\ ~ref.missing /\ ~taint
         vtw == IF cmp /\ (ref.started # sum.started \/ ref.ok # sum.ok \/ (ok /\ \E f \in DOMAIN ref.outs : f \in DOMAIN sum.outs /\ ref.outs[f] # sum.outs[f]))
                THEN {V(twp, IF ref.started # sum.started THEN "different commands run than with the discovered information written into the manifest"
                             ELSE IF ref.ok # sum.ok THEN "different build result than with the discovered information written into the manifest"
                             ELSE "different final contents than with the discovered information written into the manifest",
                        kf)} ELSE {}
         \* C17: a cycle in the needed part of the graph is diagnosed, spelled out, and none of its commands run
         hops == IF "cyc" \in DOMAIN E THEN E.cyc ELSE <<>>
         hopOK(k) == LET p == Prod(g, hops[k]) IN p # 0 /\ hops[k + 1] \in All(g, iv.T0, L, p) \cup (IF St(g, p).dd # "" THEN {St(g, p).dd} ELSE {})
         cycleNoRec == AcyclicN(g, iv.T0, LNoRec(L, skipStmts), Needed(g, iv.T0, LNoRec(L, skipStmts), iv.targets))
         kf17 == IF ~iv.acyc /\ skipStmts # {} /\ cycleNoRec THEN "KF-DEPS-SKIPPED" ELSE ""
         v17 == (IF ~iv.acyc /\ ~iv.dry /\ (ok \/ E.mc # "cycle") /\ ~iv.missingSrc /\ ~(\E i \in iv.failed : TRUE)
                 THEN {V("C17", "dependency cycle in the needed part of the graph was not diagnosed", kf17)} ELSE {})
                \cup (IF ~iv.acyc /\ startedSet \cap iv.cyc # {} THEN {V("C17", "a command on a dependency cycle was run", kf17)} ELSE {})
                \cup (IF E.mc = "cycle" /\ iv.acyc THEN {V("C17", "acyclic graph rejected as cyclic", "")} ELSE {})
                \cup (IF E.mc = "cycle" /\ ~iv.acyc /\ (Len(hops) < 2 \/ hops[1] # hops[Len(hops)] \/ \E k \in 1..(Len(hops) - 1) : ~hopOK(k))
                      THEN {V("C17", "the printed cycle is not a cycle of the graph", "")} ELSE {})
         \* C19: a dry run starts no command, leaves tree and logs alone and lists what a real build would run
         restatInNeed == \E i \in iv.need : Restat(St(g, i))
         v19 == IF ~iv.dry THEN {} ELSE
                (IF startedSet # {} THEN {V("C19", "a dry run started a command", "")} ELSE {})
                \cup (IF \E f \in ToS(g.srcs) \cup AllOuts(g) \cup {DepfilePath(St(g, i)) : i \in {j \in Ids(g) : St(g, j).deps \in {"depfile", "gcc"}}} :
                            Exists(T, f) # Exists(iv.T0, f) \/ (Exists(T, f) /\ Ent(T, f) # Ent(iv.T0, f))
                      THEN {V("C19", "a dry run changed a source, an output or a depfile", "")} ELSE {})
                \cup (IF {<<E.logs.blog[k].o, E.logs.blog[k].m, E.logs.blog[k].h>> : k \in DOMAIN E.logs.blog} # {<<iv.loaded.blog[k].o, iv.loaded.blog[k].m, iv.loaded.blog[k].h>> : k \in DOMAIN iv.loaded.blog}
                         \/ E.logs.dlog # iv.loaded.dlog THEN {V("C19", "a dry run changed the meaning of a log", "")} ELSE {})
                \cup (IF iv.acyc /\ ~relax /\ ~taint /\ ~iv.missingSrc /\ ok /\ (~(iv.exp \subseteq iv.stStarted) \/ (~restatInNeed /\ iv.stStarted # iv.exp))
                      THEN {V("C19", "the commands listed by the dry run are not those a real build runs",
                               IF iv.kfT # {} /\ iv.stStarted = iv.expNoF THEN "KF-FAIL-TOUCHED" ELSE IF kfSkipOf(iv.stStarted) THEN "KF-DEPS-SKIPPED" ELSE "")} ELSE {})
         \* C11: a needed dyndep file that is malformed / truncated / inconsistent (spec/Dyndep.tla) makes the build fail
         badNeeded == \E i \in iv.need : St(g, i).dd # "" /\ St(g, i).dd \in meta.ddbad
         v11 == IF badNeeded /\ ~iv.dry /\ ok THEN {V("C11", "the build succeeded although a needed dyndep file is malformed, truncated or inconsistent", "")} ELSE {}
         newv == v11 \cup v19 \cup v17 \cup vtw \cup v03 \cup v01 \cup v02 \cup v05f \cup v05a \cup v05b \cup v05c \cup v05d \cup v05e \cup v06 \cup v16 \cup v20 \cup v07
         kfHit == iv.kfSeen # "" \/ \E x \in newv : x.kf # ""
     IN /\ viol' = viol \cup newv
        /\ relax' = (relax \/ iv.interrupted)
        /\ taint' = (taint \/ kfHit)
        /\ afterCrash' = iv.interrupted
        /\ tw' = IF tw.mode = 1 THEN [tw EXCEPT !.sums = Append(@, sum), !.k = @ + 1]
                  ELSE IF tw.mode = 2 THEN [tw EXCEPT !.k = @ + 1, !.skip = @ \/ (tw.k + 1 <= Len(tw.sums) /\ ref.missing)] ELSE tw
        /\ prev' = [ok |-> ok /\ ~iv.editrun /\ ~iv.dry /\ ~kfHit, targets |-> iv.targets]
        /\ stats' = [stats EXCEPT !.nontrivial = @ + (IF startedSet # {} THEN 1 ELSE 0), !.interrupted = @ + (IF iv.interrupted THEN 1 ELSE 0),
                                  !.twins = @ + (IF cmp THEN 1 ELSE 0),
                                  !.kf = @ + (IF kfHit THEN 1 ELSE 0)]
  /\ iv' = NoIv
  /\ meta' = [meta EXCEPT !.eskip = @ \cup {i \in iv.skipped : UsesDeps(St(g, i)) /\ L[i].rec # {}}, !.logs = [blog |-> E.logs.blog, dlog |-> E.logs.dlog]]
  /\ UNCHANGED <<g, L, F, FT>> /\ Step

(***************************************************************************)
(* C18: -t clean (all / targets / rules, -g, -n) and -t cleandead.          *)
(* Scope is a set comprehension over the manifest (with the dyndep          *)
(* information of the files that exist, as the tool loads them first):      *)
(* removed must lie inside it and outside sources and phony names, every    *)
(* existing file of the scope must go (dry run: be counted, not removed).   *)
(***************************************************************************)
CleanEv == E
DdKnown(T, i) == LET s == St(g, i) IN s.dd = "" \/ Exists(T, s.dd)
\* the graph as the tool knows it: dyndep information only of files that exist
GK(T) == [g EXCEPT !.stmts = [i \in DOMAIN g.stmts |-> IF DdKnown(T, i) THEN g.stmts[i] ELSE [g.stmts[i] EXCEPT !.ddi = <<>>, !.ddo = <<>>]]]
TClean ==
  /\ Is("Clean")
  /\ LET T == E.pre
         gg == GK(T)
         scope == CleanScope(gg, T, E, meta.logs.blog)
         removed == ToS(E.removed)
         existing == {f \in scope : Exists(T, f)}
         protected == ToS(g.srcs) \cup UNION {Outs(St(g, i)) : i \in {j \in Ids(g) : St(g, j).phony}}
         vs == (IF ~(removed \subseteq scope) THEN {V("C18", "clean removed a file outside its scope", "")} ELSE {})
               \cup (IF removed \cap protected # {} THEN {V("C18", "clean removed a source file or a phony name", "")} ELSE {})
               \cup (IF ~E.gflag /\ E.mode = "all" /\ \E i \in Ids(g) : St(g, i).gen /\ removed \cap Outs(St(g, i)) # {}
                     THEN {V("C18", "clean without -g removed a generator output", "")} ELSE {})
               \cup (IF ~E.n /\ removed # existing THEN {V("C18", "clean did not remove every existing file of its scope", "")} ELSE {})
               \cup (IF E.n /\ (removed # {} \/ E.done.count # Cardinality(existing)) THEN {V("C18", "dry-run clean removed something or reported a wrong count", "")} ELSE {})
               \cup (IF {E.tree[k].n : k \in DOMAIN E.tree} # Names(T) \ removed THEN {V("C18", "file tree after clean is not the tree before minus the removed files", "")} ELSE {})
               \cup (IF E.done.status < 0 THEN {V("C18", "the clean tool crashed or could not load the manifest", "")} ELSE {})
     IN viol' = viol \cup vs
  /\ g' = E.g
  /\ prev' = NoPrev
  /\ stats' = [stats EXCEPT !.cleans = @ + 1]
  /\ UNCHANGED <<meta, L, F, FT, iv, relax, taint, afterCrash, tw>> /\ Step

\* -- read-only tools of the real binary (C19) ------------------------------------------------
\* `ninja -t commands` lists what a from-scratch build of the targets runs: every non-phony statement of the needed
\* closure (validations included), each after the producers of its inputs, none twice.
TTool ==
  /\ Is("Tool")
  /\ LET T == E.tree
         tg == IF E.targets = <<>> THEN RootOuts(g) ELSE ToS(E.targets)
         L0 == [i \in DOMAIN L |-> LastNone]
         need == {i \in Needed(g, T, L0, tg) : ~St(g, i).phony}
         needNV == {i \in NeededNV(g, T, L0, tg) : ~St(g, i).phony}
         one == {Prod(g, t) : t \in tg} \ ({0} \cup {q \in Ids(g) : St(g, q).phony})
         acyc == AcyclicN(g, T, L0, Needed(g, T, L0, tg))
         seq == E.cmds
         dup == \E a, b \in DOMAIN seq : a < b /\ seq[a] = seq[b]
         misordered == \E k \in DOMAIN seq : seq[k] \in Ids(g) /\ \E q \in Producers(g, T, L0, seq[k]) : ~\E a \in 1..(k - 1) : seq[a] = q
         vs == (IF E.started THEN {V("C19", "a read-only tool executed a build command: -t " \o E.tool, "")} ELSE {})
               \cup (IF E.pre # E.tree THEN {V("C19", "a read-only tool changed a file of the build directory: -t " \o E.tool, "")} ELSE {})
               \cup (IF ~E.logsame THEN {V("C19", "a read-only tool changed the meaning of the build log or of the deps log, or left a lock file: -t " \o E.tool, "")} ELSE {})
               \* (a tool killed by a signal or by the watchdog has a negative status; `targets depth` rightly reports an
               \* error for a graph without root nodes, which needs a cycle)
               \cup (IF (E.rc < 0 \/ (E.rc # 0 /\ Acyclic(g, T, L0))) /\ E.tool # "missingdeps" THEN {V("C19", "a read-only tool failed on a loadable manifest (or did not end): -t " \o E.tool, "")} ELSE {})
               \cup (IF E.tool = "commands" /\ E.rc = 0 /\ ToS(seq) # need
                     THEN {V("C19", "-t commands does not list the commands a from-scratch build of the targets runs",
                             IF ToS(seq) = needNV THEN "KF-COMMANDS-NO-VALIDATIONS" ELSE "")} ELSE {})
               \cup (IF E.tool = "commands" /\ E.rc = 0 /\ acyc /\ (dup \/ misordered)
                     THEN {V("C19", "-t commands lists a command twice or before a command that produces one of its inputs", "")} ELSE {})
               \cup (IF E.tool = "commands1" /\ E.rc = 0 /\ ToS(seq) # one
                     THEN {V("C19", "-t commands -s does not list exactly the command of the target", "")} ELSE {})
               \* what `-t inputs` and `-t targets all` print is the graph the manifest defines
               \cup (IF E.tool = "inputs" /\ E.rc = 0 /\ "ins" \in DOMAIN E /\ NoDyndep(g) /\ (ToS(E.ins) # ToolInputs(g, tg) \/ ~E.sorted \/ Len(E.ins) # Cardinality(ToS(E.ins)))
                     THEN {V("C19", "-t inputs does not list exactly the inputs the manifest names for the targets, each once, in order", "")} ELSE {})
               \cup (IF E.tool = "multi-inputs" /\ E.rc = 0 /\ "pairs" \in DOMAIN E /\ NoDyndep(g)
                      /\ (ToS(E.pairs) # UNION {{t \o ">" \o f : f \in ToolInputs(g, {t})} : t \in tg})   \* (a target named twice is answered twice)
                     THEN {V("C19", "-t multi-inputs does not list, per target, exactly the inputs the manifest names for it", "")} ELSE {})
               \cup (IF E.tool = "rules" /\ E.rc = 0 /\ "rules" \in DOMAIN E
                      /\ (ToS(E.rules) # {"phony"} \cup {RuleName(St(g, i)) : i \in Ids(g)} \/ Len(E.rules) # Cardinality(ToS(E.rules)))
                     THEN {V("C19", "-t rules does not list the rules of the manifest (and phony), each once", "")} ELSE {})
               \cup (IF E.tool = "targets-rule" /\ E.rc = 0 /\ "routs" \in DOMAIN E
                      /\ (ToS(E.routs) # UNION {ToS(St(g, i).outs) \cup ToS(St(g, i).iouts) : i \in {x \in Ids(g) : RuleName(St(g, x)) = E.rule}}
                          \/ ~E.sorted \/ Len(E.routs) # Cardinality(ToS(E.routs)))
                     THEN {V("C19", "-t targets rule does not list exactly the outputs of the statements that use the rule, in order", "")} ELSE {})
               \cup (IF E.tool = "query" /\ E.rc = 0 /\ "q" \in DOMAIN E /\ NoDyndep(g) /\ E.targets # <<>>
                      /\ LET t == E.targets[1]
                             p == Prod(g, t)
                             outsOf(i) == ToS(St(g, i).outs) \cup ToS(St(g, i).iouts)
                             insExp == IF p = 0 THEN {} ELSE {"e:" \o x : x \in ToS(St(g, p).ex)} \cup {"i:" \o x : x \in ToS(St(g, p).im)} \cup {"o:" \o x : x \in ToS(St(g, p).oo)}
                         IN \/ E.q.head # t \o ":"
                            \/ E.q.rule # (IF p = 0 THEN "" ELSE RuleName(St(g, p)))
                            \/ ToS(E.q.ins) # insExp \/ Len(E.q.ins) # Cardinality(insExp)
                            \/ ToS(E.q.vals) # (IF p = 0 THEN {} ELSE ToS(St(g, p).val))
                            \/ ToS(E.q.outs) # UNION {outsOf(i) : i \in {x \in Ids(g) : t \in DeclIn(St(g, x))}}
                            \/ ToS(E.q.vfor) # UNION {outsOf(i) : i \in {x \in Ids(g) : t \in ToS(St(g, x).val)}}
                     THEN {V("C19", "-t query does not report the statement, inputs by kind, validations and consumers the manifest defines for the target", "")} ELSE {})
               \cup (IF E.tool = "targets-all" /\ E.rc = 0 /\ "tall" \in DOMAIN E /\ (ToS(E.tall) # ToolTargetsAll(g) \/ Len(E.tall) # Cardinality(ToS(E.tall)))
                     THEN {V("C19", "-t targets all does not list every output of the manifest once with its rule", "")} ELSE {})
               \cup (IF E.json = "bad" THEN {V("C19", "compdb output is not valid JSON: -t " \o E.tool, "")} ELSE {})
               \cup (IF E.json = "badutf8" THEN {V("C19", "compdb output is not valid JSON: -t " \o E.tool, "KF-COMPDB-NON-UTF8")} ELSE {})
     IN viol' = viol \cup vs
  /\ stats' = [stats EXCEPT !.tools = @ + 1]
  /\ UNCHANGED <<meta, g, L, F, FT, iv, prev, relax, taint, afterCrash, tw>> /\ Step

\* the process died (crash point) or ended abnormally
TDied ==
  /\ Is("Died")
  /\ iv' = NoIv /\ relax' = TRUE /\ prev' = NoPrev /\ afterCrash' = TRUE
  /\ L' = [i \in DOMAIN L |-> IF iv.active /\ i \in iv.doneOK THEN [L[i] EXCEPT !.unsure = TRUE] ELSE L[i]]
  /\ stats' = [stats EXCEPT !.died = @ + 1]
  /\ UNCHANGED <<meta, g, F, FT, taint, tw, viol>> /\ Step

TAbnormal ==
  /\ l <= Len(Tr) /\ E.e \in {"Abnormal", "Bad"}
  \* in the in-process harness an abnormal end is a signal or a failed assertion inside ninja's own classes (status > 0):
  \* that fails whatever property the scenario was run for ("ANY" is reported under the property of the running check)
  /\ viol' = viol \cup {V("C06", "invocation ended abnormally (signal, watchdog or harness inconsistency)", "")}
                   \cup (IF E.e = "Abnormal" /\ E.status > 0 THEN {V("ANY", "ninja's code died from a signal or a failed assertion in the middle of an invocation", "")} ELSE {})
  /\ iv' = NoIv /\ relax' = TRUE /\ prev' = NoPrev
  /\ UNCHANGED <<meta, g, L, F, FT, taint, afterCrash, tw, stats>> /\ Step

\* all lines consumed: write the result and stop
TFlush ==
  /\ l = Len(Tr) + 1
  /\ ndJsonSerialize(OutFile, <<[stats |-> stats, viol |-> SetToSeq(viol)]>>)
  /\ l' = l + 1
  /\ UNCHANGED <<meta, g, L, F, FT, iv, prev, relax, taint, afterCrash, tw, viol, stats>>

Next == TReset \/ TEnv \/ TInvoke \/ TLoaded \/ THook \/ TStatus \/ TStart \/ TEditRun \/ TDone \/ TInterrupt
        \/ TAbort \/ TSkip \/ TCrashEv \/ TClean \/ TTool \/ TExit \/ TDied \/ TAbnormal \/ TFlush

Spec == Init /\ [][Next]_vars

\* one state per consumed line, the initial state and the flush state
TraceAccepted == TLCGet("stats").diameter = Len(Tr) + 2
=============================================================================
