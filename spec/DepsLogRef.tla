---------------------------- MODULE DepsLogRef ----------------------------
(***************************************************************************)
(* C09.  .ninja_deps as a byte sequence.  32-bit little-endian words are    *)
(* four bytes; only values below 2^24 occur in the bounded histories, the   *)
(* high byte carries the record-type bit of a size word and the 0xff of a   *)
(* checksum.                                                                *)
(*   path record:  size | path bytes | 0-3 NUL padding | ~id                *)
(*   deps record:  size+2^31 | out id | mtime lo | mtime hi | in ids...     *)
(* LoadedDeps is the loader as the format documents it, including the       *)
(* recovery rule of the property: everything before the first malformed or  *)
(* incomplete record is kept, the file is cut there.                        *)
(***************************************************************************)
EXTENDS Naturals, Sequences, SequencesExt, FiniteSets, TLC

Signature == <<35, 32, 110, 105, 110, 106, 97, 100, 101, 112, 115, 10>>   \* "# ninjadeps\n"
Version == 4
MaxRecordSize == 524287

LE(n) == <<n % 256, (n \div 256) % 256, (n \div 65536) % 256, 0>>
Val3(b, i) == b[i] + 256 * b[i + 1] + 65536 * b[i + 2]      \* low three bytes
Header == Signature \o LE(Version)
\* a recorded mtime is kept as its eight bytes (damaged records can hold any value)
M8(m) == LE(m) \o LE(0)
HeaderLen == 16

Pad(n) == (4 - (n % 4)) % 4
Zeros(k) == [i \in 1..k |-> 0]
Checksum(id) == <<255 - (id % 256), 255 - ((id \div 256) % 256), 255 - ((id \div 65536) % 256), 255>>
PathRecord(path, id) == LE(Len(path) + Pad(Len(path)) + 4) \o path \o Zeros(Pad(Len(path))) \o Checksum(id)
RECURSIVE Cat(_, _)
Cat(ws, k) == IF k > Len(ws) THEN <<>> ELSE ws[k] \o Cat(ws, k + 1)
DepsRecord(outId, m, ids) ==
  LET n == 4 * (3 + Len(ids)) IN
  <<n % 256, (n \div 256) % 256, (n \div 65536) % 256, 128>> \o LE(outId) \o LE(m) \o LE(0) \o Cat([k \in 1..Len(ids) |-> LE(ids[k])], 1)

EmptyDeps == [x \in {} |-> 0]

\* a word that is a valid small non-negative integer
Small(b, i) == b[i + 3] = 0
IndexOf(nodes, p) == IF \E i \in DOMAIN nodes : nodes[i] = p THEN CHOOSE i \in DOMAIN nodes : nodes[i] = p ELSE 0

\* state-passing record loop: st = [off, nodes, deps]
RECURSIVE Loop(_, _)
Loop(b, st) ==
  LET off == st.off  rem == Len(b) - off IN
  IF rem = 0 THEN [st EXCEPT !.bad = FALSE]
  ELSE IF rem < 4 THEN [st EXCEPT !.bad = TRUE]          \* 1-3 stray bytes: an incomplete record
  ELSE LET isDeps == b[off + 4] >= 128
           hi == IF isDeps THEN b[off + 4] - 128 ELSE b[off + 4]
           size == Val3(b, off + 1)
       IN IF hi # 0 \/ size > MaxRecordSize \/ rem < 4 + size THEN [st EXCEPT !.bad = TRUE]
          ELSE LET p0 == off + 4 IN      \* payload is b[p0+1 .. p0+size]
               IF isDeps
               THEN IF size % 4 # 0 \/ size < 12 THEN [st EXCEPT !.bad = TRUE]
                    ELSE LET nIn == (size \div 4) - 3
                             word(k) == p0 + 4 * (k - 1) + 1      \* first byte of k-th payload word
                             idOK(k) == Small(b, word(k)) /\ Val3(b, word(k)) < Len(st.nodes)
                         IN IF ~idOK(1) \/ \E k \in 1..nIn : ~idOK(3 + k) THEN [st EXCEPT !.bad = TRUE]
                            ELSE LET o == st.nodes[Val3(b, word(1)) + 1]
                                     rec == [m |-> SubSeq(b, word(2), word(2) + 7), d |-> [k \in 1..nIn |-> st.nodes[Val3(b, word(3 + k)) + 1]]]
                                 IN Loop(b, [st EXCEPT !.off = off + 4 + size,
                                                       !.deps = [x \in DOMAIN st.deps \cup {o} |-> IF x = o THEN rec ELSE st.deps[x]],
                                                       !.total = @ + 1])
               ELSE LET psz == size - 4 IN
                    IF psz <= 0 THEN [st EXCEPT !.bad = TRUE]
                    ELSE LET strip == IF b[p0 + psz] # 0 THEN 0
                                      ELSE IF psz >= 2 /\ b[p0 + psz - 1] # 0 THEN 1
                                      ELSE IF psz >= 3 /\ b[p0 + psz - 2] # 0 THEN 2
                                      ELSE IF psz >= 4 /\ b[p0 + psz - 3] # 0 THEN 3 ELSE 4
                             path == SubSeq(b, p0 + 1, p0 + psz - strip)
                             cs == SubSeq(b, p0 + psz + 1, p0 + size)
                         IN IF strip = 4 \/ psz - strip <= 0 \/ cs # Checksum(Len(st.nodes)) \/ IndexOf(st.nodes, path) # 0
                            THEN [st EXCEPT !.bad = TRUE]
                            ELSE Loop(b, [st EXCEPT !.off = off + 4 + size, !.nodes = Append(@, path)])

\* Result: removed (bad header: file discarded), nodes (id order), deps (out path -> [m, d]),
\* goodlen (the file is cut to this length when bad), bad
LoadedDeps(exists, b) ==
  IF ~exists THEN [removed |-> FALSE, nodes |-> <<>>, deps |-> EmptyDeps, goodlen |-> 0, bad |-> FALSE, big |-> FALSE, total |-> 0]
  ELSE IF Len(b) < HeaderLen \/ SubSeq(b, 1, HeaderLen) # Header
  THEN [removed |-> TRUE, nodes |-> <<>>, deps |-> EmptyDeps, goodlen |-> 0, bad |-> FALSE, big |-> FALSE, total |-> 0]
  ELSE LET r == Loop(b, [off |-> HeaderLen, nodes |-> <<>>, deps |-> EmptyDeps, bad |-> FALSE, big |-> FALSE, total |-> 0])
       IN [removed |-> FALSE, nodes |-> r.nodes, deps |-> r.deps, goodlen |-> r.off, bad |-> r.bad, big |-> r.big, total |-> r.total]

(***************************************************************************)
(* The writer: what one RecordDeps(out, mtime, ins) appends, given the ids   *)
(* assigned so far and the current table ("nothing new, nothing written").   *)
(***************************************************************************)
RECURSIVE AssignIds(_, _, _)
\* returns [nodes, bytes] after giving ids to the paths of ps (in order) that have none
AssignIds(nodes, ps, k) ==
  IF k > Len(ps) THEN [nodes |-> nodes, bytes |-> <<>>]
  ELSE IF IndexOf(nodes, ps[k]) # 0 THEN AssignIds(nodes, ps, k + 1)
  ELSE LET r == AssignIds(Append(nodes, ps[k]), ps, k + 1)
       IN [nodes |-> r.nodes, bytes |-> PathRecord(ps[k], Len(nodes)) \o r.bytes]
WriteDeps(nodes, deps, o, m, d) ==
  LET a == AssignIds(nodes, <<o>> \o d, 1)
      same == a.bytes = <<>> /\ o \in DOMAIN deps /\ deps[o] = [m |-> M8(m), d |-> d]
  IN IF same THEN [nodes |-> nodes, bytes |-> <<>>]
     ELSE [nodes |-> a.nodes,
           bytes |-> a.bytes \o DepsRecord(IndexOf(a.nodes, o) - 1, m, [k \in 1..Len(d) |-> IndexOf(a.nodes, d[k]) - 1])]
=============================================================================
