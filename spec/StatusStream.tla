--------------------------- MODULE StatusStream ---------------------------
(***************************************************************************)
(* C20, the output stream.  Reference semantics of what a user sees on      *)
(* ninja's stdout, as a machine over the Status interface calls of one      *)
(* invocation, and a trace specification that validates the byte stream the *)
(* real StatusPrinter / LinePrinter wrote (harness H1 with `printer`, the   *)
(* real ninja binary in H2) against it.                                     *)
(*                                                                         *)
(* The bytes are lexed (lib/stream.py) into tokens by exact match against   *)
(* the strings the run itself fixed: status(s) "[f/t] <description or       *)
(* command of s>", failed(s) "FAILED: [code=N] <outputs> / <command line>", *)
(* out(s) the whole captured output of s (ANSI colour sequences removed     *)
(* when stdout is not a terminal); bytes that are none of these are junk    *)
(* tokens.  Each Status call carries the tokens written during the call.    *)
(*                                                                         *)
(* Rules (property text):                                                   *)
(*  R1  the output of a command is shown exactly once, as one block,        *)
(*      directly after its status line (and, for a failed command, after    *)
(*      "FAILED" with outputs, exit code and the full command line);        *)
(*  R2  while a console-pool command owns the terminal nothing is written;  *)
(*      what other commands produce meanwhile is held and written, in       *)
(*      order, when the console is released - only status lines of silent   *)
(*      successful commands may be dropped (coalesced);                     *)
(*  R3  the counters of a status line satisfy f <= t, the finished count of  *)
(*      a line written at a finish is the number of finishes so far, and    *)
(*      after success the line of the last command (if written then) shows  *)
(*      f = t;                                                              *)
(*  R4  nothing else is written (no stray or repeated bytes).               *)
(***************************************************************************)
EXTENDS Naturals, Sequences, SequencesExt, FiniteSets, TLC, Json, IOUtils

TraceFile == IF "TRACE" \in DOMAIN IOEnv THEN IOEnv.TRACE ELSE "stream.ndjson"
OutFile == IF "VIOL" \in DOMAIN IOEnv THEN IOEnv.VIOL ELSE "viol.ndjson"
Tr == ndJsonDeserialize(TraceFile)

VARIABLES l,        \* next line
          meta,     \* [sc, run, tty]
          locked,   \* a console command owns the terminal
          held,     \* expected items held back while locked: [k, s, opt]
          shown,    \* items shown so far, as a set of <<k, s>>
          fin,      \* number of finished commands
          lastf,    \* last finished-count shown on a status line; lastt: the total shown with it
          started, finished,   \* sets of statements
          acc,      \* batch mode (real binary: stdout known only at the end): what is due so far, compared at the end
          viol, stats
vars == <<l, meta, locked, held, shown, fin, lastf, started, finished, acc, viol, stats>>

E == Tr[l]
Is(name) == l <= Len(Tr) /\ E.e = name
V(what) == [p |-> "C20", sc |-> meta.sc, run |-> meta.run, l |-> l, what |-> what, kf |-> ""]
Step == l' = l + 1

Item(k, s, opt) == [k |-> k, s |-> s, opt |-> opt]

\* the observed tokens of a call without the newline tokens
Obs == SelectSeq(E.obs, LAMBDA t : t.k # "nl")

\* obs matches the expected items: same order, every non-optional item present, nothing else
RECURSIVE Match(_, _, _, _)
Match(obs, i, exp, j) ==
  IF i > Len(obs) THEN \A x \in j..Len(exp) : exp[x].opt
  ELSE IF j > Len(exp) THEN FALSE
  ELSE \/ obs[i].k = exp[j].k /\ obs[i].s = exp[j].s /\ Match(obs, i + 1, exp, j + 1)
       \/ exp[j].opt /\ Match(obs, i, exp, j + 1)

Describe(obs, exp) ==
  IF \E i \in DOMAIN obs : obs[i].k = "junk" THEN "bytes that are neither a status line nor a command's output (interleaved, repeated or damaged output)"
  ELSE IF \E i \in DOMAIN obs : <<obs[i].k, obs[i].s>> \in shown /\ obs[i].k = "out" THEN "a command's output is shown more than once"
  ELSE IF locked /\ exp = <<>> /\ Len(obs) > 0 THEN "something is written while a console command owns the terminal"
  ELSE IF \E j \in DOMAIN exp : ~exp[j].opt /\ ~\E i \in DOMAIN obs : obs[i].k = exp[j].k /\ obs[i].s = exp[j].s
       THEN "a status line, failure report or command output that is due is missing (lost or not directly after its status line)"
  ELSE "status lines, failure reports and outputs are not in the order of the commands they belong to"

Counters(obs) ==
  LET st == SelectSeq(obs, LAMBDA t : t.k = "status") IN
  (IF \E i \in DOMAIN st : st[i].f >= 0 /\ st[i].t >= 0 /\ st[i].f > st[i].t THEN {V("a progress counter exceeds the total")} ELSE {})
  \* the counters of a NINJA_STATUS format: started %s, running %r, unstarted %u, percentage %p (-1: not in the format)
  \cup (IF \E i \in DOMAIN st : \/ (st[i].cs >= 0 /\ st[i].t >= 0 /\ st[i].cs > st[i].t)
                                 \/ (st[i].cs >= 0 /\ st[i].f >= 0 /\ st[i].f > st[i].cs)
                                 \* a line written at a finish still counts the finishing command as running
                                 \/ (st[i].cr >= 0 /\ st[i].cs >= 0 /\ st[i].f >= 0 /\ (st[i].cr > st[i].cs - st[i].f + 1 \/ st[i].cr < st[i].cs - st[i].f))
                                 \/ (st[i].cu >= 0 /\ st[i].cs >= 0 /\ st[i].t >= 0 /\ st[i].cu # st[i].t - st[i].cs)
                                 \/ (st[i].cp >= 0 /\ (st[i].cp > 100 \/ (st[i].f >= 0 /\ st[i].t > 0 /\ st[i].cp # (100 * st[i].f) \div st[i].t)))
        THEN {V("the counters of a status line are inconsistent (started / running / unstarted / finished / total / percentage)")} ELSE {})
  \cup (IF E.e = "Finished" /\ ~meta.batch /\ ~locked /\ \E i \in DOMAIN st : st[i].s = E.s /\ st[i].f >= 0 /\ st[i].f # fin + 1
        THEN {V("the finished count on a status line is not the number of commands reported finished")} ELSE {})

Check(exp) ==
  LET obs == Obs IN
  IF meta.batch /\ E.e # "BuildFinished" THEN viol' = viol /\ acc' = acc \o exp
  ELSE /\ viol' = viol \cup (IF Match(obs, 1, acc \o exp, 1) THEN {} ELSE {V(Describe(obs, acc \o exp))}) \cup Counters(obs)
       /\ acc' = <<>>
Show(exp) == shown' = shown \cup {<<Obs[i].k, Obs[i].s>> : i \in DOMAIN Obs}
\* the counters on the status line of the command whose finish is reported by this call, if it is written now
\* (batch mode: the whole stream arrives with the last call; the last status line of a non-console command is the one of the
\* last finish unless a console command finished after it, which the stream cannot tell: only then it is not judged)
LastF == LET st == SelectSeq(Obs, LAMBDA t : t.k = "status" /\ ((E.e = "Finished" /\ t.s = E.s) \/ (meta.batch /\ E.e = "BuildFinished"))) IN
         lastf' = IF Len(st) > 0 THEN [f |-> st[Len(st)].f, t |-> st[Len(st)].t] ELSE [f |-> 0, t |-> 0]

Stats0 == [execs |-> 0, calls |-> 0, tokens |-> 0, heldItems |-> 0, consoleRuns |-> 0, failed |-> 0, outputs |-> 0]
Init == /\ l = 1 /\ meta = [sc |-> "", run |-> 0, tty |-> FALSE, batch |-> FALSE] /\ acc = <<>> /\ locked = FALSE /\ held = <<>> /\ shown = {} /\ fin = 0
        /\ lastf = [f |-> 0, t |-> 0] /\ started = {} /\ finished = {} /\ viol = {} /\ stats = Stats0

TReset ==
  /\ Is("Reset")
  /\ meta' = [sc |-> E.sc, run |-> E.run, tty |-> E.tty, batch |-> E.batch]
  /\ acc' = <<>> /\ locked' = FALSE /\ held' = <<>> /\ shown' = {} /\ fin' = 0 /\ lastf' = [f |-> 0, t |-> 0] /\ started' = {} /\ finished' = {}
  /\ stats' = [stats EXCEPT !.execs = @ + 1]
  /\ UNCHANGED viol /\ Step

\* BuildEdgeStarted: a console command prints its status line and takes the terminal; on a terminal every start
\* updates the status line (held, and droppable, while the terminal is owned)
TStarted ==
  /\ Is("Started")
  /\ LET items == IF E.console \/ meta.tty THEN <<Item("status", E.s, locked)>> ELSE <<>>
         exp == IF locked THEN <<>> ELSE items
     IN /\ Check(exp) /\ Show(exp) /\ LastF
        /\ held' = IF locked THEN held \o items ELSE held
        /\ locked' = (locked \/ E.console)
  /\ started' = started \cup {E.s}
  /\ stats' = [stats EXCEPT !.calls = @ + 1, !.tokens = @ + Len(Obs), !.consoleRuns = @ + (IF E.console THEN 1 ELSE 0)]
  /\ UNCHANGED <<meta, fin, finished>> /\ Step

\* BuildEdgeFinished
TFinished ==
  /\ Is("Finished")
  /\ LET silent == E.code = 0 /\ ~E.out
         items == (IF E.console THEN <<>> ELSE <<Item("status", E.s, FALSE)>>)
                  \o (IF E.code # 0 THEN <<Item("failed", E.s, FALSE)>> ELSE <<>>)
                  \o (IF E.out THEN <<Item("out", E.s, FALSE)>> ELSE <<>>)
         \* held: the status line of a silent command may be coalesced with the next one
         heldItems == [i \in DOMAIN items |-> IF items[i].k = "status" /\ silent THEN [items[i] EXCEPT !.opt = TRUE] ELSE items[i]]
         release == E.console /\ locked
         exp == IF release THEN held \o items ELSE IF locked THEN <<>> ELSE items
     IN /\ Check(exp) /\ Show(exp) /\ LastF
        /\ held' = IF release THEN <<>> ELSE IF locked THEN held \o heldItems ELSE held
        /\ locked' = IF release THEN FALSE ELSE locked
        /\ stats' = [stats EXCEPT !.calls = @ + 1, !.tokens = @ + Len(Obs), !.heldItems = @ + (IF locked /\ ~release THEN Len(items) ELSE 0),
                                  !.failed = @ + (IF E.code # 0 THEN 1 ELSE 0), !.outputs = @ + (IF E.out THEN 1 ELSE 0)]
  /\ fin' = fin + 1
  /\ finished' = finished \cup {[s |-> E.s, out |-> E.out]}
  /\ UNCHANGED <<meta, started>> /\ Step

\* BuildFinished releases the terminal if the build stopped while it was owned
TBuildFinished ==
  /\ Is("BuildFinished")
  /\ Check(held) /\ Show(held) /\ LastF
  /\ held' = <<>> /\ locked' = FALSE
  /\ stats' = [stats EXCEPT !.calls = @ + 1, !.tokens = @ + Len(Obs)]
  /\ UNCHANGED <<meta, fin, started, finished>> /\ Step

\* other Status calls (plan bookkeeping, BuildStarted): nothing may be written
TOther ==
  /\ Is("Other")
  /\ Check(<<>>)
  /\ UNCHANGED <<meta, locked, held, shown, fin, lastf, started, finished, stats>> /\ Step

\* end of the invocation
TEnd ==
  /\ Is("End")
  /\ viol' = viol
       \cup (IF E.ok /\ ~E.pruned /\ fin > 0 /\ lastf.t > 0 /\ lastf.f # lastf.t THEN {V("after a successful build the status line of the last command does not show finished = total")} ELSE {})
       \cup (IF held # <<>> \/ locked THEN {V("output held back for a console command was never written")} ELSE {})
       \* C19: the listing of a dry run is complete (droppable progress lines are a matter of real console commands)
       \cup (IF E.dry /\ E.unlisted # <<>> THEN {[V("the listing of a dry run lacks a command the dry run went through") EXCEPT !.p = "C19"]} ELSE {})
       \cup (IF \E r \in finished : r.out /\ <<"out", r.s>> \notin shown THEN {V("the output of a finished command was never shown")} ELSE {})
  /\ UNCHANGED <<meta, locked, held, shown, fin, lastf, started, finished, acc, stats>> /\ Step

TFlush ==
  /\ l = Len(Tr) + 1
  /\ ndJsonSerialize(OutFile, <<[stats |-> stats, viol |-> SetToSeq(viol)]>>)
  /\ l' = l + 1
  /\ UNCHANGED <<meta, locked, held, shown, fin, lastf, started, finished, acc, viol, stats>>

Next == TReset \/ TStarted \/ TFinished \/ TBuildFinished \/ TOther \/ TEnd \/ TFlush
Spec == Init /\ [][Next]_vars
TraceAccepted == TLCGet("stats").diameter = Len(Tr) + 2
=============================================================================
