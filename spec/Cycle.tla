-------------------------------- MODULE Cycle --------------------------------
(***************************************************************************)
(* C17, design level: the cycle detection of the dependency scan            *)
(* (DependencyScan::RecomputeNodeDirty's marks and stack, VerifyDAG and the *)
(* path it prints, graph.cc) transcribed and checked by TLC, for every      *)
(* graph of the exported family (back edges through every input kind,       *)
(* multi-output statements, validations) and every target, against the      *)
(* graph-theoretic reference of NinjaRef:                                   *)
(*   Exact    a cycle is reported iff the needed closure of the target      *)
(*            (inputs of every kind; validation targets are needed too, but *)
(*            a validation is no dependency) contains one;                  *)
(*   PathOK   the printed path starts and ends with the same file and every *)
(*            hop x -> y leads from x to an input of the statement that     *)
(*            produces x.                                                   *)
(* The same operator, applied to the first invocation of every recorded     *)
(* execution (fresh tree, no recorded dependencies), must print the path    *)
(* the real scan printed (CycleTrace).                                      *)
(***************************************************************************)
EXTENDS NinjaRef, Json, IOUtils

InsSeq(s) == s.ex \o s.im \o s.oo
\* st = [mark: statement -> "none" | "stack" | "done", stack: files, err: the printed path (<<>> = none), vq: queued validations]
St0(gg) == [mark |-> [i \in Ids(gg) |-> "none"], stack |-> <<>>, err |-> <<>>, vq |-> <<>>]
\* VerifyDAG: the statement is on the stack; the path starts at the stack entry of that statement, reported as the node
\* through which it was reached again
PathOf(gg, stack, n, i) ==
  LET k == CHOOSE x \in DOMAIN stack : Prod(gg, stack[x]) = i /\ \A y \in DOMAIN stack : Prod(gg, stack[y]) = i => x <= y
  IN <<n>> \o SubSeq(stack, k + 1, Len(stack)) \o <<n>>
RECURSIVE Visit(_, _, _, _)
RECURSIVE VisitSeq(_, _, _, _, _)
VisitSeq(gg, st, q, k, fuel) == IF k > Len(q) \/ st.err # <<>> THEN st ELSE VisitSeq(gg, Visit(gg, st, q[k], fuel), q, k + 1, fuel)
Visit(gg, st, n, fuel) ==
  LET i == Prod(gg, n) IN
  IF st.err # <<>> \/ fuel = 0 \/ i = 0 THEN st
  ELSE IF st.mark[i] = "done" THEN st
  ELSE IF st.mark[i] = "stack" THEN [st EXCEPT !.err = PathOf(gg, st.stack, n, i)]
  ELSE LET s == St(gg, i)
           st1 == [st EXCEPT !.mark[i] = "stack", !.stack = Append(@, n), !.vq = @ \o s.val]
           st2 == VisitSeq(gg, st1, InsSeq(s), 1, fuel - 1)
       IN IF st2.err # <<>> THEN st2 ELSE [st2 EXCEPT !.mark[i] = "done", !.stack = SubSeq(@, 1, Len(@) - 1)]
\* RecomputeDirty(target): the target, then every queued validation node as a root of its own (fresh stack, marks kept)
RECURSIVE Drain(_, _, _)
Drain(gg, st, fuel) ==
  IF st.vq = <<>> \/ st.err # <<>> \/ fuel = 0 THEN st
  ELSE Drain(gg, Visit(gg, [st EXCEPT !.vq = Tail(@), !.stack = <<>>], Head(st.vq), 4 * (Len(gg.stmts) + 2)), fuel - 1)
ScanTarget(gg, st, t) == Drain(gg, Visit(gg, [st EXCEPT !.stack = <<>>], t, 4 * (Len(gg.stmts) + 2)), 8 * (Len(gg.stmts) + 2))
\* Builder::AddTarget for the targets in order, stopping at the first error
RECURSIVE ScanTargets(_, _, _, _)
ScanTargets(gg, st, q, k) == IF k > Len(q) \/ st.err # <<>> THEN st ELSE ScanTargets(gg, ScanTarget(gg, st, q[k]), q, k + 1)
Scan(gg, targets) == ScanTargets(gg, St0(gg), targets, 1).err

\* ---- reference ----------------------------------------------------------------------------
NoT == <<>>
L0(gg) == [i \in Ids(gg) |-> LastNone]
HasCycle(gg, targets) == ~AcyclicN(gg, NoT, L0(gg), Needed(gg, NoT, L0(gg), ToS(targets)))
PathGood(gg, p) ==
  /\ Len(p) >= 2 /\ p[1] = p[Len(p)]
  /\ \A k \in 1..(Len(p) - 1) : Prod(gg, p[k]) # 0 /\ p[k + 1] \in ToS(InsSeq(St(gg, Prod(gg, p[k]))))

\* ---- model checking ---------------------------------------------------------------------------
RawGraphs == ndJsonDeserialize(IF "GRAPHS" \in DOMAIN IOEnv THEN IOEnv.GRAPHS ELSE "graphs.ndjson")
Plain(gr) == \A i \in DOMAIN gr.stmts : gr.stmts[i].dd = "" /\ gr.stmts[i].mkdd = ""
VARIABLES gr, tg
vars == <<gr, tg>>
OutsOf(g0) == UNION {ToS(g0.stmts[i].outs) \cup ToS(g0.stmts[i].iouts) : i \in DOMAIN g0.stmts}
Init == /\ gr \in {RawGraphs[k] : k \in {x \in DOMAIN RawGraphs : Plain(RawGraphs[x])}}
        /\ tg \in {<<o>> : o \in OutsOf(gr)} \cup {SetToSeq(OutsOf(gr))}
Next == UNCHANGED vars
Spec == Init /\ [][Next]_vars
Exact == (Scan(gr, tg) # <<>>) = HasCycle(gr, tg)
PathOK == Scan(gr, tg) # <<>> => PathGood(gr, Scan(gr, tg))
=============================================================================
