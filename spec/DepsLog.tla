------------------------------ MODULE DepsLog ------------------------------
(***************************************************************************)
(* C09, design level: sessions append path and deps records (whole record   *)
(* buffered, then flushed), the process can die leaving any prefix of the   *)
(* file, arbitrary bytes can follow a valid prefix; the next session loads  *)
(* (cutting the file to the last good record) and appends.  TLC explores    *)
(* all operation sequences over a small alphabet (path lengths 1..4 cover   *)
(* every padding) and checks:                                               *)
(*   TableIsHistory   the table in memory is last-wins over the durably     *)
(*                    recorded operations (ghost history);                  *)
(*   ReloadAgrees     loading the bytes on disk again gives the same table, *)
(*                    the same ids and finds nothing to cut;                *)
(* so "later appends and reloads stay consistent".                          *)
(***************************************************************************)
EXTENDS DepsLogRef, Json, IOUtils, Randomization

CONSTANTS MaxOps
PA == <<97>>
PB == <<98, 98>>
PC == <<99, 99, 99>>
PD == <<100, 100, 100, 100>>
OutsM == {PA, PB}
InsM == {<<>>, <<PC>>, <<PD, PC>>}
MtM == {1, 2}
Tails == {<<0>>, <<1, 0>>, <<5, 0, 0, 0, 120>>, <<8, 0, 0, 128, 0, 0, 0, 0, 1, 0, 0, 0>>, <<12, 0, 0, 128, 9, 0, 0, 0, 1, 0, 0, 0, 0, 0, 0, 0>>,
          <<8, 0, 0, 0, 120, 0, 0, 0, 255, 255, 255, 255>>}

VARIABLES exists, file, nodes, tab, log, nops
vars == <<exists, file, nodes, tab, log, nops>>
Init == exists = FALSE /\ file = <<>> /\ nodes = <<>> /\ tab = EmptyDeps /\ log = <<>> /\ nops = 0

Rec(o, m, d) ==
  /\ nops < MaxOps
  /\ LET w == WriteDeps(nodes, tab, o, m, d)
         b0 == IF ~exists THEN Header ELSE file
     IN /\ file' = IF w.bytes = <<>> THEN file ELSE b0 \o w.bytes
        /\ exists' = (exists \/ w.bytes # <<>>)
        /\ nodes' = w.nodes
        /\ tab' = [x \in DOMAIN tab \cup {o} |-> IF x = o THEN [m |-> M8(m), d |-> d] ELSE tab[x]]
        /\ log' = IF w.bytes = <<>> THEN log ELSE Append(log, [o |-> o, m |-> m, d |-> d, end |-> Len(b0 \o w.bytes)])
  /\ nops' = nops + 1

\* next session after the file was left as b
Session(b, keep) ==
  LET r == LoadedDeps(TRUE, b) IN
  /\ exists' = ~r.removed
  /\ file' = IF r.removed THEN <<>> ELSE SubSeq(b, 1, r.goodlen)
  /\ nodes' = r.nodes /\ tab' = r.deps
  /\ log' = keep

Tear(n) ==
  /\ nops < MaxOps /\ exists /\ n < Len(file)
  /\ Session(SubSeq(file, 1, n), SelectSeq(log, LAMBDA e : e.end <= n /\ n >= HeaderLen))
  /\ nops' = nops + 1

\* arbitrary bytes behind a valid prefix: the history-based expectation restarts from what the
\* loader keeps (the tail may happen to contain well-formed records)
WantOf(lg) == LET outs == {lg[k].o : k \in DOMAIN lg} IN
              [o \in outs |-> LET ks == {k \in DOMAIN lg : lg[k].o = o}
                                  k == CHOOSE x \in ks : \A y \in ks : y <= x
                              IN [m |-> M8(lg[k].m), d |-> lg[k].d]]
Damage(t) ==
  /\ nops < MaxOps /\ exists
  /\ LET b == file \o t  r == LoadedDeps(TRUE, b) IN
     /\ r.deps = WantOf(log)            \* only cases where the tail adds nothing keep the ghost exact
     /\ Session(b, log)
  /\ nops' = nops + 1

Next == \/ \E o \in OutsM, m \in MtM, d \in InsM : Rec(o, m, d)
        \/ \E n \in 0..Len(file) : Tear(n)
        \/ \E t \in Tails : Damage(t)
Spec == Init /\ [][Next]_vars
StopNext == FALSE /\ UNCHANGED vars

TableIsHistory == tab = WantOf(log)
ReloadAgrees == LET r == LoadedDeps(exists, file) IN
                (exists /\ file # <<>>) => (~r.removed /\ ~r.bad /\ r.deps = tab /\ r.nodes = nodes /\ r.goodlen = Len(file))

(***************************************************************************)
(* Operation sequences for the real DepsLog (harness/logh.cc).              *)
(***************************************************************************)
RecOps == {[op |-> "rec", o |-> o, m |-> m, d |-> d] : o \in {"a", "bb"}, m \in MtM, d \in {<<>>, <<"ccc">>, <<"dddd", "ccc">>, <<"a">>, <<"dddd", "a">>}}
TearOp(c, t) == [op |-> "tear", cut |-> c, tail |-> t]
Reopen == [op |-> "reopen"]
PickS(k, S) == IF Cardinality(S) <= k THEN S ELSE RandomSubset(k, S)
SeqFamily(name, K) ==
  CASE name = "tear1" -> {<<r1, r2, TearOp(c, <<>>), r3, Reopen, r4, Reopen>> :
                            r1 \in PickS(2, RecOps), r2 \in PickS(K, RecOps), r3 \in PickS(K, RecOps), r4 \in PickS(2, RecOps), c \in 0..36}
    [] name = "tear2" -> {<<r1, TearOp(c1, <<>>), r2, TearOp(c2, <<>>), r3, Reopen>> :
                            r1 \in PickS(2, RecOps), r2 \in PickS(K, RecOps), r3 \in PickS(2, RecOps), c1 \in 0..20, c2 \in 0..20}
    [] name = "damage" -> {<<r1, r2, TearOp(c, t), r3, Reopen, r4, Reopen>> :
                            r1 \in PickS(2, RecOps), r2 \in PickS(K, RecOps), r3 \in PickS(2, RecOps), r4 \in PickS(1, RecOps), c \in {0, 1, 4, 13},
                            t \in Tails \cup {<<1>>, <<200, 1, 0, 128>>, <<255, 255, 255, 255>>, <<4, 0, 0, 0, 255, 255, 255, 255>>, <<7, 0, 0, 0, 0, 0, 0, 254, 255, 255, 255>>,
                                              <<12, 0, 0, 128, 255, 255, 255, 255, 1, 0, 0, 0, 0, 0, 0, 0>>, <<16, 0, 0, 128, 0, 0, 0, 0, 1, 0, 0, 0, 0, 0, 0, 0, 255, 255, 255, 127>>,
                                              <<4, 0, 0, 128, 0, 0, 0, 0>>}}
    [] name = "recompact" -> {<<r1, r2, r3, [op |-> "recompact", live |-> lv], Reopen, r4, Reopen>> :
                            r1 \in PickS(2, RecOps), r2 \in PickS(K, RecOps), r3 \in PickS(K, RecOps), r4 \in PickS(2, RecOps),
                            lv \in {<<"a", "bb">>, <<"a">>, <<"bb">>, <<>>}}
    \* a path with a record of its own that is also a dependency of an output recorded before it and of one recorded
    \* after it; recompaction with that path's statement gone (or kept), then a reload and more records
    [] name = "recompact2" -> {<<[op |-> "rec", o |-> "bb", m |-> 1, d |-> d1], [op |-> "rec", o |-> "a", m |-> m2, d |-> d2],
                                 [op |-> "rec", o |-> "eeeee", m |-> 1, d |-> d3], [op |-> "recompact", live |-> lv], Reopen, r4, Reopen>> :
                            d1 \in {<<"a">>, <<"dddd", "a">>}, m2 \in MtM, d2 \in {<<>>, <<"ccc">>}, d3 \in {<<"a">>, <<"ccc", "a">>},
                            lv \in {<<"bb", "eeeee">>, <<"eeeee">>, <<"bb">>, <<"a", "bb", "eeeee">>},
                            r4 \in PickS(K, RecOps \cup {[op |-> "rec", o |-> "eeeee", m |-> 2, d |-> <<"a", "bb">>]})}
ExpName == IF "SEQ" \in DOMAIN IOEnv THEN IOEnv.SEQ ELSE ""
ExpK == IF "K" \in DOMAIN IOEnv THEN atoi(IOEnv.K) ELSE 3
ASSUME ExpName = "" \/ ndJsonSerialize(IOEnv.OUT, SetToSeq({[live |-> <<"a", "bb", "eeeee">>, ops |-> q] : q \in SeqFamily(ExpName, ExpK)}))
=============================================================================
