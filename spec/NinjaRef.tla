----------------------------- MODULE NinjaRef -----------------------------
(***************************************************************************)
(* Reference ("make") semantics for the build-engine properties C01-C07,   *)
(* C10, C11, C17, C19.  Written from the property statements and the       *)
(* manual (DESIGN.md, Appendix A), not from ninja's code: nothing here     *)
(* mentions dirty flags, want maps, marks or queues.                       *)
(*                                                                         *)
(* All operators are pure functions of                                     *)
(*   g   the manifest graph   [srcs, pools, stmts], stmts a sequence of    *)
(*       records whose id equals their index;                              *)
(*   T   the file tree, a sequence of [n |-> name, m |-> mtime, c |-> c];  *)
(*   L   ghost history: stmt id -> what is known about its last            *)
(*       successful, durably recorded run (see LastNone);                  *)
(*   F   ghost: the set of statements that failed since they last          *)
(*       succeeded.                                                        *)
(* Contents are provenance terms [k, v, ins].                              *)
(***************************************************************************)
EXTENDS Naturals, Sequences, FiniteSets, SequencesExt, FiniteSetsExt, TLC

ToS(q) == {q[i] : i \in DOMAIN q}

Ids(g) == 1..Len(g.stmts)
St(g, i) == g.stmts[i]

\* -- tree lookups ---------------------------------------------------------
Names(T) == {T[i].n : i \in DOMAIN T}
Exists(T, f) == f \in Names(T)
Ent(T, f) == T[CHOOSE i \in DOMAIN T : T[i].n = f]
Mt(T, f) == IF Exists(T, f) THEN Ent(T, f).m ELSE 0
Missing(f) == [k |-> "missing", v |-> f, ins |-> <<>>]
Ct(T, f) == IF Exists(T, f) THEN Ent(T, f).c ELSE Missing(f)

\* -- graph vocabulary -----------------------------------------------------
Outs(s) == ToS(s.outs) \cup ToS(s.iouts) \cup ToS(s.ddo)
Restat(s) == s.restat \/ s.ddr
UsesDeps(s) == s.deps # ""
DepfilePath(s) == s.outs[1] \o ".d"
Prod(g, f) == IF \E i \in Ids(g) : f \in Outs(St(g, i))
              THEN CHOOSE i \in Ids(g) : f \in Outs(St(g, i)) ELSE 0
AllOuts(g) == UNION {Outs(St(g, i)) : i \in Ids(g)}
\* what `ninja` builds when no target is named (no default statement in the generated manifests): the outputs nothing consumes
RootOuts(g) == {o \in UNION {ToS(St(g, i).outs) \cup ToS(St(g, i).iouts) : i \in Ids(g)} :
                 \A j \in Ids(g) : o \notin ToS(St(g, j).ex) \cup ToS(St(g, j).im) \cup ToS(St(g, j).oo)}

\* What a command reads, in the order the model command reads it.
ReadList(s) == s.ex \o s.im \o s.ddi \o s.hdrs
\* "Header switch" statements (optional fields hsel, hdrs2): which files the command reads beyond its declared inputs is
\* itself a function of what it reads - hdrs while the selecting source hsel has its first content, hdrs2 afterwards -
\* and what it writes is a constant (restat-style: an output that is already right is left alone).
Hsw(s) == "hsel" \in DOMAIN s
HdrsOf(s, T) == IF Hsw(s) /\ Ct(T, s.hsel).v # "1" THEN s.hdrs2 ELSE s.hdrs
ReadAll(s) == ReadList(s) \o (IF Hsw(s) THEN s.hdrs2 ELSE <<>>)

LastNone == [has |-> FALSE, vstr |-> "", start |-> 0, end |-> 0, rec |-> {}, recok |-> FALSE, unsure |-> FALSE]

\* Recorded (discovered) dependencies that are currently valid.
RecValid(g, T, L, i) ==
  LET s == St(g, i) IN
  /\ UsesDeps(s) /\ L[i].has /\ L[i].recok
  /\ (s.deps = "depfile" => Exists(T, DepfilePath(s)))
Rec(g, T, L, i) == IF RecValid(g, T, L, i) THEN L[i].rec ELSE {}

ManIn(s) == ToS(s.ex) \cup ToS(s.im) \cup ToS(s.ddi)
In(g, T, L, i) == ManIn(St(g, i)) \cup Rec(g, T, L, i)
All(g, T, L, i) == In(g, T, L, i) \cup ToS(St(g, i).oo)

\* Phony statements are transparent for their non-order-only inputs.
RECURSIVE Thru(_, _, _)
Thru(g, f, fuel) ==
  LET p == Prod(g, f) IN
  IF p # 0 /\ St(g, p).phony /\ fuel > 0
  THEN {f} \cup UNION {Thru(g, x, fuel - 1) : x \in ManIn(St(g, p))}
  ELSE {f}
EffOf(g, fs) == UNION {Thru(g, f, Len(g.stmts)) : f \in fs}
EffIn(g, T, L, i) == EffOf(g, In(g, T, L, i))

\* For ordering, every input kind of a phony statement is followed.
RECURSIVE ThruAll(_, _, _)
ThruAll(g, f, fuel) ==
  LET p == Prod(g, f) IN
  IF p # 0 /\ St(g, p).phony /\ fuel > 0
  THEN {f} \cup UNION {ThruAll(g, x, fuel - 1) : x \in ManIn(St(g, p)) \cup ToS(St(g, p).oo)}
  ELSE {f}
\* Real (non-phony) producers a statement has to wait for.
Producers(g, T, L, i) ==
  {Prod(g, f) : f \in UNION {ThruAll(g, x, Len(g.stmts)) : x \in All(g, T, L, i)}} \ ({0} \cup {q \in Ids(g) : St(g, q).phony})

\* -- needed closure -------------------------------------------------------
RECURSIVE Close(_, _, _, _, _)
Close(g, T, L, S, fuel) ==
  LET nxt == (S \cup {Prod(g, f) : f \in UNION {All(g, T, L, i) \cup ToS(St(g, i).val) : i \in S}}) \ {0}
  IN IF nxt = S \/ fuel = 0 THEN S ELSE Close(g, T, L, nxt, fuel - 1)
Needed(g, T, L, targets) ==
  Close(g, T, L, {Prod(g, t) : t \in targets} \ {0}, Len(g.stmts) + 1)
\* the closure without validations (what `-t commands` walks: signature of KF-COMMANDS-NO-VALIDATIONS)
RECURSIVE CloseNV(_, _, _, _, _)
CloseNV(g, T, L, S, fuel) ==
  LET nxt == (S \cup {Prod(g, f) : f \in UNION {All(g, T, L, i) : i \in S}}) \ {0}
  IN IF nxt = S \/ fuel = 0 THEN S ELSE CloseNV(g, T, L, nxt, fuel - 1)
NeededNV(g, T, L, targets) ==
  CloseNV(g, T, L, {Prod(g, t) : t \in targets} \ {0}, Len(g.stmts) + 1)

\* -- read-only tools: what they print ------------------------------------
\* `-t inputs T...`: every file named as an input (explicit, implicit or order-only; validations are not inputs) by the
\* producer of a target or of such an input, transitively - the manifest alone counts (no log, no dyndep file is read) -
\* except the names produced by phony statements, which are looked through.  Printed in byte order.
DeclIn(s) == ToS(s.ex) \cup ToS(s.im) \cup ToS(s.oo)
RECURSIVE InReach(_, _, _)
InReach(g, S, fuel) ==
  LET nxt == S \cup UNION {DeclIn(St(g, Prod(g, f))) : f \in {x \in S : Prod(g, x) # 0}}
  IN IF nxt = S \/ fuel = 0 THEN S ELSE InReach(g, nxt, fuel - 1)
ToolInputs(g, tg) ==
  LET R == InReach(g, tg, 2 * Len(g.stmts) + 2) IN
  {f \in R : /\ \E x \in R : Prod(g, x) # 0 /\ f \in DeclIn(St(g, Prod(g, x)))
             /\ (Prod(g, f) = 0 \/ ~St(g, Prod(g, f)).phony)}
\* `-t targets all`: one line "output: rule" for every output (implicit ones included) of every statement
RuleName(s) == IF s.phony THEN "phony" ELSE "r" \o ToString(s.id)
ToolTargetsAll(g) == UNION {{o \o ": " \o RuleName(St(g, i)) : o \in ToS(St(g, i).outs) \cup ToS(St(g, i).iouts)} : i \in Ids(g)}
NoDyndep(g) == \A i \in Ids(g) : St(g, i).dd = "" /\ St(g, i).ddo = <<>> /\ St(g, i).ddi = <<>>

\* Dependency relation between statements (no validations) and a
\* topological order of all statements; cyclic graphs get no order.
DepOn(g, T, L, i) == {Prod(g, f) : f \in All(g, T, L, i)} \ {0}
\* S is closed under DepOn (a needed closure, or all statements)
RECURSIVE TopoFrom(_, _, _, _, _, _)
TopoFrom(g, T, L, S, done, acc) ==
  LET ready == {i \in S \ done : DepOn(g, T, L, i) \subseteq done} IN
  IF ready = {} THEN acc
  ELSE LET i == CHOOSE x \in ready : \A y \in ready : x <= y
       IN TopoFrom(g, T, L, S, done \cup {i}, Append(acc, i))
\* the statements everything in S transitively depends on, S included
RECURSIVE UpClose(_, _, _, _, _)
UpClose(g, T, L, S, fuel) == LET nxt == S \cup UNION {DepOn(g, T, L, j) : j \in S} IN IF nxt = S \/ fuel = 0 THEN S ELSE UpClose(g, T, L, nxt, fuel - 1)
TopoN(g, T, L, S) == TopoFrom(g, T, L, UpClose(g, T, L, S, Len(g.stmts) + 1), {}, <<>>)
AcyclicN(g, T, L, S) == Len(TopoN(g, T, L, S)) = Cardinality(UpClose(g, T, L, S, Len(g.stmts) + 1))
\* statements of S that lie on a dependency cycle
OnCycle(g, T, L, i) == i \in UpClose(g, T, L, DepOn(g, T, L, i), Len(g.stmts) + 1)
CycleStmts(g, T, L, S) == {i \in UpClose(g, T, L, S, Len(g.stmts) + 1) : OnCycle(g, T, L, i)}
Topo(g, T, L) == TopoN(g, T, L, Ids(g))
Acyclic(g, T, L) == AcyclicN(g, T, L, Ids(g))

RECURSIVE DownFrom(_, _, _, _, _)
DownFrom(g, T, L, S, fuel) ==
  LET nxt == S \cup {i \in Ids(g) : DepOn(g, T, L, i) \cap S # {}}
  IN IF nxt = S \/ fuel = 0 THEN S ELSE DownFrom(g, T, L, nxt, fuel - 1)
\* Statements that (transitively) depend on a statement of S, S included.
Downstream(g, T, L, S) == DownFrom(g, T, L, S, Len(g.stmts) + 1)

\* -- contents -------------------------------------------------------------
NewC(s, pred) == IF Hsw(s) THEN [k |-> s.en, v |-> s.vstr, ins |-> <<>>]
                 ELSE [k |-> s.en, v |-> s.vstr, ins |-> [j \in 1..Len(ReadList(s)) |-> pred[ReadList(s)[j]]]]
\* "split" statements (optional field): the second output is made from the first explicit input alone, so a run can rewrite
\* one output and leave the other as it is
SplitOut(s, o) == "split" \in DOMAIN s /\ Len(s.outs) >= 2 /\ o = s.outs[2]
OutC(s, o, pred) == IF o = s.mkdd THEN [k |-> "txt", v |-> s.ddtxt, ins |-> <<>>]
                    ELSE IF SplitOut(s, o) THEN [k |-> s.en \o "b", v |-> s.vstr, ins |-> <<pred[s.ex[1]]>>]
                    ELSE NewC(s, pred)

Files(g, T) == Names(T) \cup AllOuts(g) \cup UNION {ToS(ReadAll(St(g, i))) : i \in Ids(g)}

\* Content every file has after a from-scratch build of the current sources
\* and manifest (outputs of phony statements excluded by the callers).
RECURSIVE CleanFold(_, _, _, _)
CleanFold(g, order, k, pred) ==
  IF k > Len(order) THEN pred
  ELSE LET s == St(g, order[k]) IN
       IF s.phony THEN CleanFold(g, order, k + 1, pred)
       ELSE CleanFold(g, order, k + 1,
              [f \in DOMAIN pred |-> IF f \in Outs(s) THEN OutC(s, f, pred) ELSE pred[f]])
Base(g, T) == [f \in Files(g, T) |-> IF Prod(g, f) = 0 THEN Ct(T, f) ELSE Missing(f)]
CleanContent(g, T, L) == CleanFold(g, Topo(g, T, L), 1, Base(g, T))
CleanContentN(g, T, L, S) == CleanFold(g, TopoN(g, T, L, S), 1, Base(g, T))

\* -- which commands a correct build runs ------------------------------------
RefT(s, l) == IF Restat(s) \/ s.gen THEN l.end ELSE l.start

\* "Own" reasons of statement i over the input set fs (already phony-expanded).
OwnOver(g, T, L, F, i, fs) ==
  LET s == St(g, i)  l == L[i] IN
  \/ \E o \in Outs(s) : ~Exists(T, o)
  \/ ~s.gen /\ ~l.has
  \/ ~s.gen /\ l.has /\ l.vstr # s.vstr
  \/ UsesDeps(s) /\ ~RecValid(g, T, L, i)
  \/ \E f \in fs : Prod(g, f) = 0 /\ f \in Rec(g, T, L, i) /\ ~Exists(T, f)
  \/ l.has /\ \E f \in fs : Exists(T, f) /\ Mt(T, f) > RefT(s, l)
  \/ s.gen /\ ~l.has /\ \E f \in fs, o \in Outs(s) : Exists(T, f) /\ Mt(T, o) < Mt(T, f)
  \/ i \in F

\* Fold over the statements in topological order.
\*   acc.runs  statements that run
\*   acc.rew   files that are rewritten (restat statements rewrite only
\*             what changes)
\*   acc.pred  predicted contents after the build
RECURSIVE RunFold(_, _, _, _, _, _, _, _)
RunFold(g, T, L, F, need, order, k, acc) ==
  IF k > Len(order) THEN acc
  ELSE LET i == order[k]  s == St(g, i) IN
       IF i \notin need \/ s.phony THEN RunFold(g, T, L, F, need, order, k + 1, acc)
       ELSE LET fs == EffIn(g, T, L, i)
                up == \E f \in fs : Prod(g, f) \in acc.runs /\ f \in acc.rew
            IN IF ~(OwnOver(g, T, L, F, i, fs) \/ up)
               THEN RunFold(g, T, L, F, need, order, k + 1, acc)
               ELSE LET rew == {o \in Outs(s) : ~Restat(s) \/ ~Exists(T, o) \/ OutC(s, o, acc.pred) # Ct(T, o)}
                    IN RunFold(g, T, L, F, need, order, k + 1,
                         [runs |-> acc.runs \cup {i},
                          rew  |-> acc.rew \cup rew,
                          pred |-> [f \in DOMAIN acc.pred |-> IF f \in Outs(s) THEN OutC(s, f, acc.pred) ELSE acc.pred[f]]])
Disk(g, T) == [f \in Files(g, T) |-> Ct(T, f)]
ExpectedRun(g, T, L, F, targets) ==
  RunFold(g, T, L, F, Needed(g, T, L, targets), TopoN(g, T, L, Needed(g, T, L, targets)), 1,
          [runs |-> {}, rew |-> {}, pred |-> Disk(g, T)]).runs

(***************************************************************************)
(* Signature of the known finding KF-DEPS-SKIPPED: the commands that run   *)
(* if recorded dependencies are ignored for every statement that is        *)
(* already out of date without them (own reason, or an out-of-date         *)
(* producer of a manifest input).  Used only to attribute a deviation to   *)
(* the known finding, never to excuse anything else.                       *)
(***************************************************************************)
LNoRec(L, S) == [i \in DOMAIN L |-> IF i \in S THEN [L[i] EXCEPT !.rec = {}] ELSE L[i]]
RECURSIVE SkipFold(_, _, _, _, _, _, _)
SkipFold(g, T, L, F, order, k, acc) ==
  IF k > Len(order) THEN acc
  ELSE LET i == order[k]  s == St(g, i)
           mi == EffOf(g, ManIn(s))
           pd == \E f \in mi : Prod(g, f) # 0 /\ Prod(g, f) \in acc.sd
       IN IF s.phony
          THEN SkipFold(g, T, L, F, order, k + 1, IF pd THEN [acc EXCEPT !.sd = @ \cup {i}] ELSE acc)
          ELSE LET d0 == OwnOver(g, T, L, F, i, mi) \/ pd
                   useRec == ~d0 /\ Rec(g, T, L, i) # {}
                   fs == IF useRec THEN EffIn(g, T, L, i) ELSE mi
                   sdi == IF useRec
                          THEN OwnOver(g, T, L, F, i, fs) \/ \E f \in fs : Prod(g, f) # 0 /\ Prod(g, f) \in acc.sd
                          ELSE d0
               IN SkipFold(g, T, L, F, order, k + 1,
                    [sd |-> IF sdi THEN acc.sd \cup {i} ELSE acc.sd,
                     skipped |-> IF d0 /\ Rec(g, T, L, i) # {} THEN acc.skipped \cup {i} ELSE acc.skipped])
\* Statements whose recorded dependencies are not consulted.
SkippedSet(g, T, L, F, S) == SkipFold(g, T, L, F, TopoN(g, T, L, S), 1, [sd |-> {}, skipped |-> {}]).skipped
ExpectedRunSkip(g, T, L, F, targets) ==
  LET L2 == LNoRec(L, SkippedSet(g, T, L, F, Needed(g, T, L, targets))) IN
  \* ignoring the records also removes the "record invalid" reason: keep recok
  RunFold(g, T, L2, F, Needed(g, T, L2, targets), TopoN(g, T, L2, Needed(g, T, L2, targets)), 1,
          [runs |-> {}, rew |-> {}, pred |-> Disk(g, T)]).runs
=============================================================================
