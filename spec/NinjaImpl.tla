----------------------------- MODULE NinjaImpl -----------------------------
(***************************************************************************)
(* The build engine as implemented (design level): ninja's algorithms       *)
(* transcribed action by action, anchored in the code by comments           *)
(* (file:function).  Two uses:                                              *)
(*  - MC_NinjaImpl: TLC explores every schedule, failure placement and      *)
(*    history of edits for small graphs and checks the Ref properties       *)
(*    (NinjaRef.tla: C01-C06) in every state of the design;                 *)
(*  - ImplTrace.tla: the scan/plan part (ScanAll, pure) is compared with    *)
(*    the dirty/want state the real DependencyScan/Plan compute on every    *)
(*    invocation recorded by the harness (strict conformance, Impl level).  *)
(* Not modelled here: dyndep surgery, dry-run.  The critical-path weights   *)
(* of Plan::ComputeCriticalPath are CritW below; NinjaImplMC uses them as   *)
(* the order of the ready queue and of the pools' delayed sets when its     *)
(* constant Prio is TRUE (any ready statement may start when it is FALSE).  *)
(***************************************************************************)
EXTENDS NinjaRef

(***************************************************************************)
(* Scan: DependencyScan::RecomputeDirty / RecomputeNodeDirty (graph.cc).    *)
(* State-passing DFS.  st =                                                 *)
(*   dirty   set of files marked dirty                                      *)
(*   known   set of source files already stat'ed (status_known)             *)
(*   done    statements with mark VisitDone                                 *)
(*   notrdy  statements with outputs_ready_ = FALSE                         *)
(*   nmt     cached mtimes of nodes (phony outputs inherit their inputs')   *)
(*   ins     statement -> [ex, im, oo] after splicing recorded dependencies *)
(*   dmiss   statements with deps_missing_                                  *)
(*   skipped statements that took the LoadDepsTry branch (known finding)    *)
(*   vq      validation nodes queued as further roots                       *)
(* env = [g, nm (file -> mtime on disk, 0 = missing), blog (out -> [m, cur])*)
(*        dlog (out -> [m, d]), dfile (statements whose depfile exists)]    *)
(***************************************************************************)
InsOf(st, i) == st.ins[i]
NonOO(st, i) == InsOf(st, i).ex \o InsOf(st, i).im
AllIn(st, i) == NonOO(st, i) \o InsOf(st, i).oo

MaxOf(S) == IF S = {} THEN 0 ELSE CHOOSE x \in S : \A y \in S : y <= x

\* RecomputeOutputsDirtyCache::all / RecomputeOutputDirty<FIRSTRUN> / Phony  (graph.cc:162-292)
\* mri: mtime of the most recent clean non-order-only input, 0 if none ("most_recent_input" null)
OutDirtyFirst(env, s, o, mt, mri) ==
  LET has == o \in DOMAIN env.blog
      ent == env.blog[o]
      usedRestat == Restat(s) /\ has
  IN \/ mt = 0                                            \* output doesn't exist
     \/ ~usedRestat /\ mri > 0 /\ mt < mri               \* older than most recent input
     \/ has /\ ~s.gen /\ ~ent.cur                         \* command line changed
     \/ has /\ mri > 0 /\ ent.m < mri                     \* recorded mtime older than most recent input
     \/ ~has /\ ~s.gen                                    \* command line not found in log
\* the follow-up check after recorded deps were loaded (depfile()): no existence / hash / missing-entry checks
OutDirtyDeps(env, s, o, mt, mri) ==
  LET has == o \in DOMAIN env.blog
      usedRestat == Restat(s) /\ has
  IN \/ ~usedRestat /\ mri > 0 /\ mt < mri
     \/ has /\ mri > 0 /\ env.blog[o].m < mri

\* ImplicitDepLoader::LoadDeps / LoadDepsTry (graph.cc:842-1047): are recorded deps available and valid?
DepsAvail(env, st, i) ==
  LET s == St(env.g, i)  o == s.outs[1] IN
  IF s.deps \in {"gcc", "msvc"} THEN o \in DOMAIN env.dlog /\ st.nmt[o] <= env.dlog[o].m
  ELSE IF s.deps = "depfile" THEN i \in env.dfile
  ELSE TRUE
RecDeps(env, i) ==
  LET s == St(env.g, i) IN
  IF s.deps \in {"gcc", "msvc"} THEN env.dlog[s.outs[1]].d
  ELSE IF s.deps = "depfile" THEN s.hdrs ELSE <<>>

RECURSIVE VisitNode(_, _, _, _)
RECURSIVE VisitSeq(_, _, _, _, _)
VisitSeq(env, st, q, k, fuel) == IF k > Len(q) THEN st ELSE VisitSeq(env, VisitNode(env, st, q[k], fuel), q, k + 1, fuel)

\* mri and input dirtiness over a sequence of (already visited) non-order-only inputs: RecomputeEdgesInputsDirty
InDirty(st, q) == \E k \in DOMAIN q : q[k] \in st.dirty
MriOf(st, q) == MaxOf({st.nmt[q[k]] : k \in {j \in DOMAIN q : q[j] \notin st.dirty}})
NotReadyIn(env, st, q) == \E k \in DOMAIN q : Prod(env.g, q[k]) # 0 /\ Prod(env.g, q[k]) \in st.notrdy

VisitNode(env, st, n, fuel) ==
  LET i == Prod(env.g, n) IN
  IF i = 0 THEN
    IF n \in st.known THEN st
    ELSE [st EXCEPT !.known = @ \cup {n}, !.dirty = IF env.nm[n] = 0 THEN @ \cup {n} ELSE @]
  ELSE IF i \in st.done \/ fuel = 0 THEN st
  ELSE
    LET s == St(env.g, i)
        \* validations are queued, not recursed into
        st0 == [st EXCEPT !.vq = @ \o s.val, !.done = @ \cup {i}]       \* (mark: done is set early; cycles are outside this model)
        \* visit all manifest inputs first
        st1 == VisitSeq(env, st0, AllIn(st0, i), 1, fuel - 1)
        q1 == NonOO(st1, i)
        dirty1 == InDirty(st1, q1)
        mri1 == MriOf(st1, q1)
        outs == s.outs \o s.iouts
        outDirty(mri, first) ==
          IF s.phony
          THEN first /\ Len(AllIn(st1, i)) = 0 /\ Len(s.val) = 0 /\ \E k \in DOMAIN outs : st1.nmt[outs[k]] = 0
          ELSE \E k \in DOMAIN outs : IF first THEN OutDirtyFirst(env, s, outs[k], st1.nmt[outs[k]], mri)
                                               ELSE OutDirtyDeps(env, s, outs[k], st1.nmt[outs[k]], mri)
        dirty2 == dirty1 \/ outDirty(mri1, TRUE)
        \* phony outputs that do not exist take the mtime of the most recent input (UpdatePhonyMtime)
        nmtP == IF s.phony /\ ~dirty1 /\ mri1 > 0
                THEN [f \in DOMAIN st1.nmt |-> IF f \in ToS(outs) /\ env.nm[f] = 0 THEN (IF st1.nmt[f] > mri1 THEN st1.nmt[f] ELSE mri1) ELSE st1.nmt[f]]
                ELSE st1.nmt
        st2 == [st1 EXCEPT !.nmt = nmtP]
        \* recorded dependencies
        hasDeps == UsesDeps(s)
        avail == DepsAvail(env, st2, i)
        \* clean so far and deps available: splice them in as implicit inputs and visit them
        rec == RecDeps(env, i)
        st3 == IF hasDeps /\ ~dirty2 /\ avail
               THEN VisitSeq(env, [st2 EXCEPT !.ins[i].im = @ \o rec], rec, 1, fuel - 1)
               ELSE st2
        q3 == NonOO(st3, i)
        dirtyRec == InDirty(st3, rec)
        mri3 == MriOf(st3, q3)
        dirty3 == IF hasDeps /\ ~dirty2 /\ avail
                  THEN dirtyRec \/ (mri3 # mri1 /\ outDirty(mri3, FALSE))
                  ELSE IF hasDeps /\ ~avail THEN TRUE ELSE dirty2
        dmiss == hasDeps /\ ~avail
        skip == hasDeps /\ dirty2
        notReady == NotReadyIn(env, st3, AllIn(st3, i)) \/ (dirty3 /\ ~(s.phony /\ Len(AllIn(st3, i)) = 0))
    IN [st3 EXCEPT !.dirty = IF dirty3 THEN @ \cup ToS(outs) ELSE @,
                   !.notrdy = IF notReady THEN @ \cup {i} ELSE @,
                   !.dmiss = IF dmiss THEN @ \cup {i} ELSE @,
                   !.skipped = IF skip THEN @ \cup {i} ELSE @]

\* RecomputeDirty(target): the target, then the queued validation nodes (graph.cc:310-341)
RECURSIVE DrainVal(_, _, _)
DrainVal(env, st, fuel) ==
  IF st.vq = <<>> \/ fuel = 0 THEN st
  ELSE DrainVal(env, VisitNode(env, [st EXCEPT !.vq = Tail(@)], Head(st.vq), Len(env.g.stmts) + 2), fuel - 1)

Scan0(env) ==
  [dirty |-> {}, known |-> {}, done |-> {}, notrdy |-> {}, nmt |-> env.nm,
   ins |-> [i \in Ids(env.g) |-> [ex |-> St(env.g, i).ex, im |-> St(env.g, i).im, oo |-> St(env.g, i).oo]],
   dmiss |-> {}, skipped |-> {}, vq |-> <<>>, vseen |-> <<>>]

(***************************************************************************)
(* Plan::AddTarget / AddSubTarget (build.cc:95-151): want map.              *)
(***************************************************************************)
RECURSIVE AddSub(_, _, _, _, _)
RECURSIVE AddSubSeq(_, _, _, _, _, _)
AddSubSeq(env, st, w, q, k, fuel) == IF k > Len(q) THEN w ELSE AddSubSeq(env, st, AddSub(env, st, w, q[k], fuel), q, k + 1, fuel)
AddSub(env, st, w, n, fuel) ==
  LET i == Prod(env.g, n) IN
  IF i = 0 \/ i \notin st.notrdy \/ fuel = 0 THEN w          \* leaf, or outputs ready: nothing to do
  ELSE LET seen == i \in DOMAIN w
           w1 == IF ~seen THEN [x \in DOMAIN w \cup {i} |-> IF x = i THEN (IF n \in st.dirty THEN "start" ELSE "nothing") ELSE w[x]]
                 ELSE IF n \in st.dirty /\ w[i] = "nothing" THEN [w EXCEPT ![i] = "start"] ELSE w
       IN IF seen THEN w1 ELSE AddSubSeq(env, st, w1, AllIn(st, i), 1, fuel - 1)

\* Builder::AddTarget for every target in order: scan, plan the target, plan the validation nodes found by this scan
RECURSIVE AddTargets(_, _, _, _)
AddTargets(env, acc, targets, k) ==
  IF k > Len(targets) THEN acc
  ELSE LET t == targets[k]
           vq0 == Len(acc.st.vseen)
           st1 == VisitNode(env, acc.st, t, Len(env.g.stmts) + 2)
           \* drain validation queue, remembering every validation node found
           RECURSIVE Drain(_, _)
           Drain(s, fuel) == IF s.vq = <<>> \/ fuel = 0 THEN s
                             ELSE LET v == Head(s.vq) IN Drain(VisitNode(env, [s EXCEPT !.vq = Tail(@), !.vseen = Append(@, v)], v, Len(env.g.stmts) + 2), fuel - 1)
           st2 == Drain(st1, 4 * (Len(env.g.stmts) + 1))
           planned == Prod(env.g, t) = 0 \/ Prod(env.g, t) \in st2.notrdy
           w1 == IF planned THEN AddSub(env, st2, acc.w, t, Len(env.g.stmts) + 2) ELSE acc.w
           newv == SubSeq(st2.vseen, vq0 + 1, Len(st2.vseen))
           \* Plan::targets_: the target if it was planned, then the validation nodes whose statement has work
           pt1 == (IF planned THEN <<t>> ELSE <<>>) \o SelectSeq(newv, LAMBDA v : Prod(env.g, v) # 0 /\ Prod(env.g, v) \in st2.notrdy)
           RECURSIVE AddV(_, _)
           AddV(w, j) == IF j > Len(newv) THEN w
                         ELSE LET p == Prod(env.g, newv[j]) IN
                              AddV(IF p # 0 /\ p \in st2.notrdy THEN AddSub(env, st2, w, newv[j], Len(env.g.stmts) + 2) ELSE w, j + 1)
       IN AddTargets(env, [st |-> st2, w |-> AddV(w1, 1), pt |-> acc.pt \o pt1], targets, k + 1)

EmptyW == [x \in {} |-> "none"]
ScanAll(env, targets) == AddTargets(env, [st |-> Scan0(env), w |-> EmptyW, pt |-> <<>>], targets, 1)

(***************************************************************************)
(* Plan::ComputeCriticalPath (build.cc:480-566): every statement reachable  *)
(* from the plan's targets through the input lists as they are after the    *)
(* scan (recorded dependencies spliced in, validations not followed) gets   *)
(* the weight of the heaviest chain of commands from it to a target; a      *)
(* phony statement weighs 0, a command 1; statements that were not reached  *)
(* keep the initial -1.  EdgePriorityLess (graph.h:448): larger weight      *)
(* first, then the statement that comes first in the manifest.              *)
(***************************************************************************)
RECURSIVE ReachUp(_, _, _, _)
ReachUp(env, st, S, fuel) ==
  LET N == S \cup (UNION {{Prod(env.g, AllIn(st, c)[k]) : k \in DOMAIN AllIn(st, c)} : c \in S} \ {0})
  IN IF N = S \/ fuel = 0 THEN S ELSE ReachUp(env, st, N, fuel - 1)
CritW(env, st, pts) ==
  LET V == ReachUp(env, st, {Prod(env.g, pts[k]) : k \in DOMAIN pts} \ {0}, Len(env.g.stmts) + 1)
      H(e) == IF St(env.g, e).phony THEN 0 ELSE 1
      UsersIn(e) == {c \in V : \E k \in DOMAIN AllIn(st, c) : Prod(env.g, AllIn(st, c)[k]) = e}
      RECURSIVE It(_, _)
      It(w, n) == IF n = 0 THEN w ELSE It([e \in Ids(env.g) |-> IF e \in V THEN H(e) + MaxOf({w[c] : c \in UsersIn(e)}) ELSE 0 - 1], n - 1)
  IN It([e \in Ids(env.g) |-> IF e \in V THEN H(e) ELSE 0 - 1], Len(env.g.stmts))
Better(prio, i, j) == prio[i] > prio[j] \/ (prio[i] = prio[j] /\ i <= j)
TopOf(prio, S) == CHOOSE i \in S : \A j \in S : Better(prio, i, j)
=============================================================================
