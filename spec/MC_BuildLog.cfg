SPECIFICATION Spec
CONSTANT MaxOps = 5
INVARIANT SafeInv
INVARIANT CompleteInv
INVARIANT ExactInv
CHECK_DEADLOCK FALSE
