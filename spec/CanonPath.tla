----------------------------- MODULE CanonPath -----------------------------
(***************************************************************************)
(* C14: exhaustive exploration of CanonRef (one state per string) and the   *)
(* export of implementation tests.  See CanonRef.tla.                       *)
(***************************************************************************)
EXTENDS CanonRef

(***************************************************************************)
(* Exhaustive exploration: one state per string.                            *)
(***************************************************************************)
CONSTANTS MaxLen
Alphabet == {97, 98, Dot, Sep}
VARIABLE path
Init == path = <<>>
Next == /\ Len(path) < MaxLen
        /\ \E ch \in Alphabet : path' = Append(path, ch)
Spec == Init /\ [][Next]_path
LawsHold == Laws(path)

\* Export for the implementation tests.
RECURSIVE AllStr(_)
AllStr(n) == IF n = 0 THEN {<<>>} ELSE LET S == AllStr(n - 1) IN S \cup {Append(s, ch) : s \in {x \in S : Len(x) = n - 1}, ch \in Alphabet}
ExpLen == IF "EXPLEN" \in DOMAIN IOEnv THEN atoi(IOEnv.EXPLEN) ELSE 0
ASSUME ExpLen = 0 \/ ndJsonSerialize(IOEnv.OUT, SetToSeq({[in |-> s, exp |-> Canon(s)] : s \in AllStr(ExpLen)}))
=============================================================================
