------------------------------ MODULE CleanRef ------------------------------
(***************************************************************************)
(* C18, reference level: what `ninja -t clean` / `-t cleandead` may and     *)
(* must remove, as set comprehensions over the manifest graph (dyndep       *)
(* information of the files that exist included, as the tool loads them     *)
(* first).  Used by RefTrace (monitor of the real Cleaner) and by Clean     *)
(* (design-level model of src/clean.cc checked against these sets).         *)
(*   all      outputs, depfile and response file of every non-phony         *)
(*            statement (generator statements only with -g)                 *)
(*   targets  ... of the statements the targets transitively depend on      *)
(*            (inputs of every kind, not validations)                       *)
(*   rules    ... of the statements of the named rules                      *)
(*   dead     paths recorded in the build log that are neither output nor   *)
(*            input of any statement                                        *)
(***************************************************************************)
EXTENDS NinjaRef

EdgeFiles(gg, i) == LET s == gg.stmts[i] IN
  Outs(s) \cup (IF s.deps \in {"depfile", "gcc"} THEN {DepfilePath(s)} ELSE {}) \cup (IF s.rsp THEN {s.rsppath} ELSE {})
RECURSIVE CleanClose(_, _, _)
CleanClose(gg, S, fuel) ==
  LET nxt == (S \cup {Prod(gg, f) : f \in UNION {ManIn(gg.stmts[i]) \cup ToS(gg.stmts[i].oo) : i \in S}}) \ {0}
  IN IF nxt = S \/ fuel = 0 THEN S ELSE CleanClose(gg, nxt, fuel - 1)
CleanScope(gg, T, ev, blog) ==
  CASE ev.mode = "all" -> UNION {EdgeFiles(gg, i) : i \in {j \in DOMAIN gg.stmts : ~gg.stmts[j].phony /\ (ev.gflag \/ ~gg.stmts[j].gen)}}
    [] ev.mode = "targets" -> UNION {EdgeFiles(gg, i) : i \in {j \in CleanClose(gg, {Prod(gg, t) : t \in ToS(ev.args)} \ {0}, Len(gg.stmts) + 1) : ~gg.stmts[j].phony}}
    [] ev.mode = "rules" -> UNION {EdgeFiles(gg, i) : i \in {j \in DOMAIN gg.stmts : ~gg.stmts[j].phony /\ ("r" \o ToString(gg.stmts[j].id)) \in ToS(ev.args)}}
    \* (a file that a statement still names - as output, as input of any kind or as validation target - appears in the graph)
    [] ev.mode = "dead" -> {blog[k].o : k \in DOMAIN blog} \ (AllOuts(gg) \cup UNION {ManIn(gg.stmts[i]) \cup ToS(gg.stmts[i].oo) \cup ToS(gg.stmts[i].val) : i \in DOMAIN gg.stmts})
=============================================================================
