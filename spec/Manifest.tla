------------------------------ MODULE Manifest ------------------------------
(***************************************************************************)
(* C12.  Reference evaluator for ninja manifests over statement ASTs,       *)
(* written from the manual ("Evaluation and scoping", "Rule variables",     *)
(* "Build statements", "Pools", "Default target statements", the phony      *)
(* rule):                                                                   *)
(*  - file-level and build-level bindings, and all paths, are expanded      *)
(*    immediately, when the statement is read;                              *)
(*  - rule bindings are expanded late, when the command is needed, in the   *)
(*    scope of the build statement: build block, then rule, then the file   *)
(*    (with the values the file ends up with), then the files that included *)
(*    it with subninja;                                                     *)
(*  - include shares the scope (variables and rules), subninja opens a      *)
(*    child scope;                                                          *)
(*  - constraint violations are errors.                                     *)
(* TLC evaluates the reference on programs of a bounded grammar, renders    *)
(* them to text and exports (files, expectation); each is an implementation *)
(* test of the real ManifestParser (harness/fn.cc `manifest`).              *)
(***************************************************************************)
EXTENDS Naturals, Sequences, SequencesExt, FiniteSets, TLC, Json, IOUtils, Randomization

T(s) == [t |-> "txt", s |-> s]
Var(n) == [t |-> "var", n |-> n]

Let(n, v) == [k |-> "let", name |-> n, val |-> v]
Rule(n, binds) == [k |-> "rule", name |-> n, binds |-> binds]
Bd(n, v) == [name |-> n, val |-> v]
Build(outs, iouts, rule, ex, im, oo, vals, binds) ==
  [k |-> "build", outs |-> outs, iouts |-> iouts, rule |-> rule, ex |-> ex, im |-> im, oo |-> oo, vals |-> vals, binds |-> binds]
Default(ps) == [k |-> "default", paths |-> ps]
Pool(n, d) == [k |-> "pool", name |-> n, depth |-> d]
Include(f) == [k |-> "include", file |-> f]
Subninja(f) == [k |-> "subninja", file |-> f]

Reserved == {"command", "depfile", "dyndep", "description", "deps", "generator", "pool", "restat", "rspfile", "rspfile_content", "msvc_deps_prefix"}

\* ---- scopes: a store  id -> [vars, rules, parent]  (id 1 is the top-level file) -------------
NoParent == 0
EmptyFn == [x \in {} |-> 0]
RECURSIVE LookupVar(_, _, _)
LookupVar(sc, id, n) == IF id = NoParent THEN ""
                        ELSE IF n \in DOMAIN sc[id].vars THEN sc[id].vars[n] ELSE LookupVar(sc, sc[id].parent, n)
RECURSIVE LookupRule(_, _, _)
LookupRule(sc, id, n) == IF id = NoParent THEN [found |-> FALSE]
                         ELSE IF n \in DOMAIN sc[id].rules THEN [found |-> TRUE, binds |-> sc[id].rules[n]] ELSE LookupRule(sc, sc[id].parent, n)

\* immediate expansion of an EStr in scope id, with extra build-level bindings bv consulted first
RECURSIVE Expand(_, _, _, _, _)
Expand(sc, id, bv, es, i) ==
  IF i > Len(es) THEN ""
  ELSE (IF es[i].t = "txt" THEN es[i].s
        ELSE IF es[i].n \in DOMAIN bv THEN bv[es[i].n] ELSE LookupVar(sc, id, es[i].n)) \o Expand(sc, id, bv, es, i + 1)
Ex(sc, id, bv, es) == Expand(sc, id, bv, es, 1)

\* canonical spelling of the paths the grammar uses
CanonS(p) == CASE p = "./a" -> "a" [] p = "./s" -> "s" [] p = "c/" -> "c" [] p = "a/." -> "a" [] p = "b/c/.." -> "b" [] p = "d/../b" -> "b" [] p = "c//" -> "c" [] p = "./d/./e" -> "d/e" [] OTHER -> p

Fn(binds) == [n \in {binds[i].name : i \in DOMAIN binds} |-> binds[CHOOSE i \in DOMAIN binds : binds[i].name = n /\ \A j \in DOMAIN binds : binds[j].name = n => j <= i].val]

St0 == [ok |-> TRUE, err |-> "", sc |-> <<[vars |-> EmptyFn, rules |-> EmptyFn, parent |-> NoParent]>>,
        edges |-> <<>>, outs |-> {}, defaults |-> <<>>, pools |-> EmptyFn, nodes |-> {}]
Fail(st, e) == [st EXCEPT !.ok = FALSE, !.err = e]

IsNat(s) == s \in {"0", "1", "2", "3", "4", "5"}
NatOf(s) == CASE s = "0" -> 0 [] s = "1" -> 1 [] s = "2" -> 2 [] s = "3" -> 3 [] s = "4" -> 4 [] s = "5" -> 5

\* ---- one statement -------------------------------------------------------------------------
DoBuild(st, id, s) ==
  LET r == IF s.rule = "phony" THEN [found |-> TRUE, binds |-> EmptyFn] ELSE LookupRule(st.sc, id, s.rule)
      \* build-level bindings are expanded in the enclosing scope, one after the other
      bv == [n \in {s.binds[i].name : i \in DOMAIN s.binds} |->
               Ex(st.sc, id, EmptyFn, s.binds[CHOOSE i \in DOMAIN s.binds : s.binds[i].name = n /\ \A j \in DOMAIN s.binds : s.binds[j].name = n => j <= i].val)]
      P(q) == [i \in DOMAIN q |-> CanonS(Ex(st.sc, id, bv, q[i]))]
      outs == P(s.outs)  iouts == P(s.iouts)  ex0 == P(s.ex)  im0 == P(s.im)  oo0 == P(s.oo)  vals == P(s.vals)
      allouts == outs \o iouts
      \* the legacy form "build a: phony ... a ...": the self reference is dropped, the other inputs keep their kind
      selfph == s.rule = "phony" /\ Len(allouts) = 1 /\ Len(iouts) = 0 /\ Len(im0) = 0
      Drop(q) == IF selfph THEN SelectSeq(q, LAMBDA p : p # outs[1]) ELSE q
      ex == Drop(ex0)  im == im0  oo == Drop(oo0)
      poolName == IF "pool" \in DOMAIN bv THEN bv["pool"]
                  ELSE IF r.found /\ "pool" \in DOMAIN r.binds THEN Ex(st.sc, id, bv, r.binds["pool"]) ELSE LookupVar(st.sc, id, "pool")
      dynName == IF "dyndep" \in DOMAIN bv THEN CanonS(bv["dyndep"])
                 ELSE IF r.found /\ "dyndep" \in DOMAIN r.binds THEN CanonS(Ex(st.sc, id, bv, r.binds["dyndep"])) ELSE CanonS(LookupVar(st.sc, id, "dyndep"))
      dupInStmt == \E i, j \in DOMAIN allouts : i < j /\ allouts[i] = allouts[j]
      allp == outs \o iouts \o ex0 \o im0 \o oo0 \o vals
  IN IF ~r.found THEN Fail(st, "unknown build rule")
     ELSE IF Len(allouts) = 0 THEN Fail(st, "expected path")
     ELSE IF \E i \in DOMAIN allp : allp[i] = "" THEN Fail(st, "empty path")
     ELSE IF dupInStmt \/ \E i \in DOMAIN allouts : allouts[i] \in st.outs THEN Fail(st, "multiple rules generate")
     ELSE IF poolName # "" /\ poolName # "console" /\ poolName \notin DOMAIN st.pools THEN Fail(st, "unknown pool name")
     ELSE IF dynName # "" /\ ~\E i \in DOMAIN (ex \o im \o oo) : (ex \o im \o oo)[i] = dynName THEN Fail(st, "dyndep is not an input")
     ELSE [st EXCEPT !.edges = Append(@, [scope |-> id, bv |-> bv, rule |-> s.rule, rbinds |-> r.binds, outs |-> outs, iouts |-> iouts,
                                           ex |-> ex, im |-> im, oo |-> oo, vals |-> vals, pool |-> poolName, dyndep |-> dynName]),
                     !.outs = @ \cup {allouts[i] : i \in DOMAIN allouts},
                     !.nodes = @ \cup {allouts[i] : i \in DOMAIN allouts} \cup {(ex \o im \o oo \o vals)[i] : i \in DOMAIN (ex \o im \o oo \o vals)}]

Given(b, n) == n \in DOMAIN b /\ b[n] # <<>>
DoRule(st, id, s) ==
  LET b == Fn(s.binds) IN
  \* the phony rule is predeclared in the top scope (a subninja scope may declare its own)
  IF s.name \in DOMAIN st.sc[id].rules \/ (s.name = "phony" /\ id = 1) THEN Fail(st, "duplicate rule")
  ELSE IF \E i \in DOMAIN s.binds : s.binds[i].name \notin Reserved THEN Fail(st, "unexpected variable")
  \* a binding whose value is empty counts as not given ("command =" is a missing command)
  ELSE IF Given(b, "rspfile") # Given(b, "rspfile_content") THEN Fail(st, "rspfile and rspfile_content need to be both specified")
  ELSE IF ~Given(b, "command") THEN Fail(st, "expected 'command =' line")
  ELSE [st EXCEPT !.sc[id].rules = [n \in DOMAIN @ \cup {s.name} |-> IF n = s.name THEN b ELSE @[n]]]

DoLet(st, id, s) ==
  LET v == Ex(st.sc, id, EmptyFn, s.val) IN
  [st EXCEPT !.sc[id].vars = [n \in DOMAIN @ \cup {s.name} |-> IF n = s.name THEN v ELSE @[n]]]

DoPool(st, id, s) ==
  LET d == Ex(st.sc, id, EmptyFn, s.depth) IN
  IF s.name \in DOMAIN st.pools \/ s.name = "console" THEN Fail(st, "duplicate pool")
  ELSE IF ~IsNat(d) THEN Fail(st, "invalid pool depth")
  ELSE [st EXCEPT !.pools = [n \in DOMAIN @ \cup {s.name} |-> IF n = s.name THEN NatOf(d) ELSE @[n]]]

DoDefault(st, id, s) ==
  LET ps == [i \in DOMAIN s.paths |-> CanonS(Ex(st.sc, id, EmptyFn, s.paths[i]))] IN
  IF \E i \in DOMAIN ps : ps[i] = "" THEN Fail(st, "empty path")
  ELSE IF \E i \in DOMAIN ps : ps[i] \notin st.nodes THEN Fail(st, "unknown target")
  ELSE [st EXCEPT !.defaults = @ \o ps]

RECURSIVE DoFile(_, _, _, _, _, _)
DoStmt(files, st, id, s, depth) ==
  CASE s.k = "let" -> DoLet(st, id, s)
    [] s.k = "rule" -> DoRule(st, id, s)
    [] s.k = "build" -> DoBuild(st, id, s)
    [] s.k = "pool" -> DoPool(st, id, s)
    [] s.k = "default" -> DoDefault(st, id, s)
    [] s.k = "include" -> IF s.file \notin DOMAIN files THEN Fail(st, "loading file") ELSE DoFile(files, st, id, s.file, 1, depth + 1)
    [] s.k = "subninja" ->
         IF s.file \notin DOMAIN files THEN Fail(st, "loading file")
         ELSE DoFile(files, [st EXCEPT !.sc = Append(@, [vars |-> EmptyFn, rules |-> EmptyFn, parent |-> id])], Len(st.sc) + 1, s.file, 1, depth + 1)
DoFile(files, st, id, f, i, depth) ==
  IF ~st.ok \/ i > Len(files[f]) THEN st
  ELSE IF depth > 3 THEN Fail(st, "include depth")
  ELSE DoFile(files, DoStmt(files, st, id, files[f][i], depth), id, f, i + 1, depth)

\* ---- late expansion of the rule bindings of an edge --------------------------------------------
JoinP(q) == LET RECURSIVE J(_) J(i) == IF i > Len(q) THEN "" ELSE IF i = Len(q) THEN q[i] ELSE q[i] \o " " \o J(i + 1) IN J(1)
\* $in / $out are shell-quoted (C16) except in depfile, rspfile and dyndep; of the grammar's paths these need quotes
Q(p, esc) == IF esc /\ p \in {"x:y", "a b", "ox:y", "$", "o$", "i$", "oa b", "ia b", "=", ">", ":", "|", "||", "|@"} THEN "'" \o p \o "'" ELSE p
RECURSIVE EdgeVar(_, _, _, _, _)
EdgeVar(st, e, n, fuel, esc) ==
  IF n = "in" \/ n = "in_newline" THEN JoinP([i \in DOMAIN e.ex |-> Q(e.ex[i], esc)])
  ELSE IF n = "out" THEN JoinP([i \in DOMAIN e.outs |-> Q(e.outs[i], esc)])
  ELSE IF n \in DOMAIN e.bv THEN e.bv[n]
  ELSE IF n \in DOMAIN e.rbinds /\ fuel > 0 THEN
         LET es == e.rbinds[n]
             RECURSIVE X(_)
             X(i) == IF i > Len(es) THEN "" ELSE (IF es[i].t = "txt" THEN es[i].s ELSE EdgeVar(st, e, es[i].n, fuel - 1, esc)) \o X(i + 1)
         IN X(1)
  ELSE LookupVar(st.sc, e.scope, n)
EV(st, e, n) == EdgeVar(st, e, n, 4, n \notin {"depfile", "rspfile", "dyndep"})

EdgeOut(st, e) ==
  [outs |-> e.outs, iouts |-> e.iouts, ex |-> e.ex, im |-> e.im, oo |-> e.oo, vals |-> e.vals, rule |-> e.rule, pool |-> e.pool,
   command |-> EV(st, e, "command"), description |-> EV(st, e, "description"), depfile |-> EV(st, e, "depfile"),
   rspfile |-> EV(st, e, "rspfile"), rspfile_content |-> EV(st, e, "rspfile_content"),
   restat |-> EV(st, e, "restat") # "", generator |-> EV(st, e, "generator") # "", deps |-> EV(st, e, "deps"), dyndep |-> e.dyndep]

\* what a plain `ninja` builds: the targets of the default statements, or - without any - every output that no statement
\* takes as an input (in manifest order); a graph in which every output is consumed has no roots (it is cyclic)
SeqToSet(q) == {q[i] : i \in DOMAIN q}
Roots(st) ==
  LET used == UNION {SeqToSet(st.edges[i].ex) \cup SeqToSet(st.edges[i].im) \cup SeqToSet(st.edges[i].oo) : i \in DOMAIN st.edges}
      RECURSIVE R(_)
      R(i) == IF i > Len(st.edges) THEN <<>> ELSE SelectSeq(st.edges[i].outs \o st.edges[i].iouts, LAMBDA o : o \notin used) \o R(i + 1)
  IN R(1)
Builds(st) == IF st.defaults # <<>> THEN st.defaults
              ELSE IF Len(st.edges) > 0 /\ Roots(st) = <<>> THEN <<"<no root nodes>">> ELSE Roots(st)
Eval(files) ==
  LET st == DoFile(files, St0, 1, "build.ninja", 1, 0) IN
  IF ~st.ok THEN [ok |-> FALSE, err |-> st.err]
  ELSE [ok |-> TRUE, err |-> "", edges |-> [i \in DOMAIN st.edges |-> EdgeOut(st, st.edges[i])], defaults |-> st.defaults, builds |-> Builds(st),
        pools |-> [i \in 1..Cardinality(DOMAIN st.pools) |-> LET n == SetToSortSeq(DOMAIN st.pools, LAMBDA a, b : a < b)[i] IN [name |-> n, depth |-> st.pools[n]]]]

(***************************************************************************)
(* Rendering to manifest text ($-escapes for the special characters).       *)
(***************************************************************************)
\* the grammar's text atoms are whole strings; those containing special characters have a fixed escaped spelling
EscTxt(s, path) == CASE s = "$" -> "$$" [] s = " " -> "$ " [] s = ":" -> "$:" [] s = "a b" -> "a$ b" [] s = "x:y" -> (IF path THEN "x$:y" ELSE "x:y")
                     [] s = "p|q" -> "p|q" [] OTHER -> s
REs(es, path) == LET RECURSIVE R(_) R(i) == IF i > Len(es) THEN "" ELSE (IF es[i].t = "txt" THEN EscTxt(es[i].s, path) ELSE "${" \o es[i].n \o "}") \o R(i + 1) IN R(1)
RPaths(q) == LET RECURSIVE R(_) R(i) == IF i > Len(q) THEN "" ELSE " " \o REs(q[i], TRUE) \o R(i + 1) IN R(1)
RBinds(b) == LET RECURSIVE R(_) R(i) == IF i > Len(b) THEN "" ELSE "  " \o b[i].name \o " = " \o REs(b[i].val, FALSE) \o "\n" \o R(i + 1) IN R(1)
RStmt(s) ==
  CASE s.k = "let" -> s.name \o " = " \o REs(s.val, FALSE) \o "\n"
    [] s.k = "rule" -> "rule " \o s.name \o "\n" \o RBinds(s.binds)
    [] s.k = "build" -> "build" \o RPaths(s.outs) \o (IF Len(s.iouts) > 0 THEN " |" \o RPaths(s.iouts) ELSE "") \o ": " \o s.rule \o RPaths(s.ex)
                        \o (IF Len(s.im) > 0 THEN " |" \o RPaths(s.im) ELSE "") \o (IF Len(s.oo) > 0 THEN " ||" \o RPaths(s.oo) ELSE "")
                        \o (IF Len(s.vals) > 0 THEN " |@" \o RPaths(s.vals) ELSE "") \o "\n" \o RBinds(s.binds)
    [] s.k = "default" -> "default" \o RPaths(s.paths) \o "\n"
    [] s.k = "pool" -> "pool " \o s.name \o "\n  depth = " \o REs(s.depth, FALSE) \o "\n"
    [] s.k = "include" -> "include " \o s.file \o "\n"
    [] s.k = "subninja" -> "subninja " \o s.file \o "\n"
RFile(q) == LET RECURSIVE R(_) R(i) == IF i > Len(q) THEN "" ELSE RStmt(q[i]) \o R(i + 1) IN R(1)
Render(files) == [f \in DOMAIN files |-> RFile(files[f])]

(***************************************************************************)
(* The bounded grammar.                                                     *)
(***************************************************************************)
Vals == {<<T("1")>>, <<T("2")>>, <<Var("x")>>, <<Var("y"), T("z")>>, <<T("$")>>, <<T("a b")>>, <<Var("in"), T("-"), Var("x")>>, <<>>}
Paths == {<<T("a")>>, <<T("b")>>, <<T("c")>>, <<T("./a")>>, <<T("d/../b")>>, <<Var("x")>>, <<T("o"), Var("y")>>, <<T("x:y")>>, <<T("c/")>>, <<T("a/.")>>, <<T("b/c/..")>>}
CmdVals == {<<T("cc "), Var("in"), T(" > "), Var("out")>>, <<T("run "), Var("x")>>, <<T("c "), Var("y"), T(" "), Var("flags")>>, <<Var("x"), Var("x")>>}
RuleForms ==
  {Rule(n, <<Bd("command", c)>>) : n \in {"r", "q"}, c \in CmdVals}
  \cup {Rule(n, <<Bd("command", c), Bd(k, v)>>) : n \in {"r"}, c \in {<<T("run "), Var("x")>>}, k \in {"description", "depfile", "restat", "generator", "deps", "pool"},
                                                   v \in {<<T("1")>>, <<Var("y")>>, <<T("gcc")>>, <<T("p")>>}}
  \cup {Rule("r", <<Bd("command", <<T("c")>>), Bd("rspfile", <<Var("out"), T(".rsp")>>), Bd("rspfile_content", <<Var("in")>>)>>),
        Rule("r", <<Bd("command", <<T("c")>>), Bd("rspfile", <<T("f")>>)>>),              \* error: no rspfile_content
        Rule("r", <<Bd("description", <<T("d")>>)>>),                                      \* error: no command
        Rule("r", <<Bd("command", <<T("c")>>), Bd("flags", <<T("-O")>>)>>),               \* error: not a reserved name
        Rule("q", <<Bd("command", <<T("c "), Var("flags")>>), Bd("dyndep", <<T("dd")>>)>>)}
LetForms == {Let(n, v) : n \in {"x", "y", "flags"}, v \in Vals}
BuildForms ==
  {Build(<<o>>, <<>>, r, <<i>>, <<>>, <<>>, <<>>, <<>>) : o \in Paths, r \in {"r", "q", "phony", "nope"}, i \in Paths}
  \cup {Build(<<<<T("a")>>>>, <<<<T("c")>>>>, "r", <<<<T("s")>>>>, <<<<Var("x")>>>>, <<<<T("t")>>>>, <<<<T("b")>>>>, b) :
          b \in {<<>>, <<Bd("x", <<T("9")>>)>>, <<Bd("flags", <<Var("x"), T("!")>>), Bd("x", <<T("8")>>)>>, <<Bd("pool", <<T("p")>>)>>, <<Bd("pool", <<T("nopool")>>)>>, <<Bd("dyndep", <<T("t")>>)>>, <<Bd("dyndep", <<T("zz")>>)>>}}
  \cup {Build(<<<<T("a")>>>>, <<>>, "phony", <<<<T("b")>>>>, <<>>, <<<<T("a")>>>>, <<>>, <<>>),       \* legacy self reference, order-only position
        Build(<<<<T("a")>>>>, <<>>, "phony", <<<<T("a")>>, <<T("b")>>>>, <<>>, <<<<T("c")>>>>, <<>>, <<>>),
        Build(<<<<T("a")>>, <<T("a")>>>>, <<>>, "r", <<<<T("s")>>>>, <<>>, <<>>, <<>>, <<>>)}             \* same output twice
OtherForms == {Default(<<p>>) : p \in {<<T("a")>>, <<T("zz")>>, <<Var("x")>>, <<T("a/.")>>, <<T("c/")>>}} \cup {Pool("p", d) : d \in {<<T("2")>>, <<Var("x")>>, <<T("-1")>>}} \cup {Pool("console", <<T("1")>>)}
                \cup {Include("inc.ninja"), Subninja("inc.ninja"), Include("missing.ninja")}
Forms == RuleForms \cup LetForms \cup BuildForms \cup OtherForms
IncForms == LetForms \cup RuleForms \cup {Build(<<<<T("i"), Var("x")>>>>, <<>>, r, <<<<T("s")>>>>, <<>>, <<>>, <<>>, <<>>) : r \in {"r", "q"}}

K == IF "K" \in DOMAIN IOEnv THEN atoi(IOEnv.K) ELSE 2
\* programs: slots filled from classes of forms so that most programs get past the first statements (rules before
\* their uses, a pool before its use, the included file somewhere in the middle), plus fully random sequences
RulesR == {f \in RuleForms : f.name = "r"}
RulesQ == {f \in RuleForms : f.name = "q"}
PoolsOK == {Pool("p", <<T("2")>>), Pool("p", <<Var("x")>>)}
IncBuilds == {f \in IncForms : f.k = "build"}
RuleOK(f) == LET b == Fn(f.binds) IN "command" \in DOMAIN b /\ (\A i \in DOMAIN f.binds : f.binds[i].name \in Reserved) /\ (("rspfile" \in DOMAIN b) = ("rspfile_content" \in DOMAIN b))
RulesROK == {f \in RulesR : RuleOK(f)}
Structured(round) ==
  { [main |-> <<a, b, c, d, e, f, h>>, inc |-> <<i1, i2>>, inc2 |-> <<>>] :
      a \in RandomSubset(1, LetForms \cup PoolsOK), b \in RandomSubset(2, RulesROK) \cup RandomSubset(1, RulesR),
      c \in RandomSubset(2, RulesQ \cup LetForms \cup {Include("inc.ninja"), Subninja("inc.ninja")}),
      d \in RandomSubset(2, BuildForms), e \in RandomSubset(2, LetForms \cup BuildForms \cup {Include("inc.ninja"), Subninja("inc.ninja")}),
      f \in RandomSubset(2, BuildForms \cup OtherForms), h \in RandomSubset(1, LetForms \cup OtherForms),
      i1 \in RandomSubset(1, LetForms \cup RuleForms), i2 \in RandomSubset(1, IncBuilds \cup LetForms) }
\* programs built to be accepted most of the time: builds draw their outputs from disjoint classes of spellings
RulesQOK == {f \in RulesQ : RuleOK(f) /\ "dyndep" \notin DOMAIN Fn(f.binds)}
B1(o, r, i, b) == Build(<<o>>, <<>>, r, <<i>>, <<>>, <<>>, <<>>, b)
BindSets == {<<>>, <<Bd("x", <<T("9")>>)>>, <<Bd("flags", <<Var("x"), T("!")>>), Bd("x", <<T("8")>>)>>, <<Bd("y", <<Var("x"), Var("y")>>)>>, <<Bd("description", <<T("d "), Var("out")>>)>>}
Ins == {<<T("s")>>, <<T("./s")>>, <<T("a b")>>, <<T("x:y")>>, <<T("$")>>}
Valid(round) ==
  { [main |-> <<a, b, c, d, e, f, h, k>>, inc |-> <<i1, i2>>, inc2 |-> <<>>] :
      a \in RandomSubset(2, LetForms), b \in RandomSubset(2, RulesROK), c \in RandomSubset(1, RulesQOK),
      d \in RandomSubset(2, LetForms \cup {Include("inc.ninja"), Subninja("inc.ninja")}),
      e \in RandomSubset(2, {B1(o, r, i, bs) : o \in {<<T("a")>>, <<T("./a")>>, <<T("o"), T("a b")>>}, r \in {"r", "q", "phony"}, i \in Ins, bs \in BindSets}),
      f \in RandomSubset(2, LetForms \cup {B1(o, r, i, bs) : o \in {<<T("b")>>, <<T("d/../b")>>, <<T("o"), T("$")>>}, r \in {"r", "q"}, i \in Ins \cup {<<T("a")>>}, bs \in BindSets}),
      h \in RandomSubset(1, {Build(<<<<T("c")>>, <<T("o"), T("x:y")>>>>, <<<<T("c2")>>>>, "r", <<<<T("a")>>, <<T("s")>>>>, <<<<T("t")>>>>, <<<<T("u")>>>>, <<<<T("b")>>>>, bs) : bs \in BindSets}),
      k \in RandomSubset(1, {Default(<<<<T("a")>>>>), Default(<<<<T("c")>>, <<T("./a")>>>>), Let("x", <<T("late")>>), Let("flags", <<T("-late")>>)}),
      i1 \in RandomSubset(1, LetForms \cup RulesQOK), i2 \in RandomSubset(1, IncBuilds \cup LetForms) }
(***************************************************************************)
(* include versus subninja, enumerated: two statements A, B of the top file *)
(* each include or subninja one of two files; the files bind variables,    *)
(* declare rules (a duplicate when included into a scope that has the rule, *)
(* a shadowing declaration when read by subninja) and build outputs whose   *)
(* names and commands show which scope every lookup used; the top file      *)
(* rebinds a variable between and after them.                               *)
(***************************************************************************)
RR(n, c) == Rule(n, <<Bd("command", c)>>)
IncStmts(tag) ==
  { <<i1, i2>> : i1 \in {Let("x", <<T(tag)>>), Let("y", <<Var("x"), T(tag)>>), RR("q", <<T("q"), T(tag), T(" "), Var("x"), Var("y")>>), RR("r", <<T("r"), T(tag), T(" "), Var("y")>>)},
                 i2 \in {B1(<<T(tag), Var("x")>>, "r", <<T("s")>>, <<>>), B1(<<T(tag), Var("y")>>, "q", <<T("s")>>, <<>>), Let("y", <<Var("x"), Var("y"), T("+")>>)} }
ScopeRefs == {Include(f) : f \in {"inc.ninja", "inc2.ninja"}} \cup {Subninja(f) : f \in {"inc.ninja", "inc2.ninja"}}
Scoping ==
  { [main |-> <<Let("x", <<T("1")>>), RR("r", <<T("run "), Var("x"), T(" "), Var("y")>>), A>> \o M \o <<B, B1(<<T("a"), Var("y")>>, "r", <<T("s")>>, <<>>)>> \o Z,
     inc |-> i, inc2 |-> j] :
      A \in ScopeRefs, B \in ScopeRefs, M \in {<<>>, <<Let("x", <<T("2")>>)>>, <<Let("y", <<T("m")>>)>>}, Z \in {<<>>, <<Let("y", <<T("z")>>)>>, <<B1(<<T("w")>>, "q", <<T("s")>>, <<>>)>>},
      i \in IncStmts("i"), j \in IncStmts("j") }
(***************************************************************************)
(* Lookup order build, rule, file for the reserved rule variables, *)
(* enumerated: a variable of that name bound in the file (before the rule,  *)
(* and possibly again at the end), in the rule or not, in the build block   *)
(* or not, for a statement without a block and for one with a block.        *)
(***************************************************************************)
Shadow ==
  { [main |-> <<Let(n, <<T("file")>>), Rule("r", <<Bd("command", <<T("c "), Var("out")>>)>> \o rb),
                B1(<<T("a")>>, "r", <<T("s")>>, <<>>), B1(<<T("b")>>, "r", <<T("s")>>, bb)>> \o Z, inc |-> <<>>, inc2 |-> <<>>] :
      n \in {"description", "depfile", "restat", "command"}, rb \in {<<>>, <<Bd("description", <<T("rule "), Var("out")>>)>>, <<Bd("depfile", <<Var("out"), T(".d")>>)>>},
      bb \in {<<>>, <<Bd("x", <<T("1")>>)>>, <<Bd("description", <<T("build")>>)>>}, Z \in {<<>>, <<Let("description", <<T("late")>>)>>} }
(***************************************************************************)
(* A rule whose pool is a variable reference: the pool of every statement   *)
(* is the value the variable has where that statement stands (same file,    *)
(* included file, subninja file), an unknown name is an error there.        *)
(***************************************************************************)
PoolVar ==
  { [main |-> <<Pool("p", <<T("2")>>), Let("y", <<T("p")>>), Rule("r", <<Bd("command", <<T("c "), Var("out")>>), Bd("pool", <<Var("y")>>)>>),
                B1(<<T("a")>>, "r", <<T("s")>>, <<>>)>> \o M \o <<B1(<<T("b")>>, "r", <<T("s")>>, bb)>> \o Z,
     inc |-> <<Let("y", <<T(v2)>>), B1(<<T("c")>>, "r", <<T("s")>>, <<>>)>>, inc2 |-> <<>>] :
      M \in {<<>>, <<Let("y", <<T("")>>)>>, <<Let("y", <<T("console")>>)>>, <<Let("y", <<T("nopool")>>)>>},
      bb \in {<<>>, <<Bd("x", <<T("1")>>)>>, <<Bd("pool", <<T("")>>)>>},
      Z \in {<<>>, <<Include("inc.ninja")>>, <<Subninja("inc.ninja")>>, <<Subninja("inc.ninja"), B1(<<T("d")>>, "r", <<T("s")>>, <<>>)>>},
      v2 \in {"", "console", "nopool"} }
SC == IF "SC" \in DOMAIN IOEnv THEN atoi(IOEnv.SC) ELSE 200
Programs ==
  UNION { Structured(r) : r \in 1..K }
  \cup UNION { Valid(r) : r \in 1..(2 * K) }
  \cup (IF SC >= Cardinality(Scoping) THEN Scoping ELSE RandomSubset(SC, Scoping))
  \cup Shadow \cup PoolVar
  \cup UNION { { [main |-> m, inc |-> i, inc2 |-> <<>>] : m \in RandomSubset(K, [1..n -> Forms]), i \in RandomSubset(1, [1..2 -> IncForms]) } : n \in 3..5 }
FilesOf(p) == [f \in {"build.ninja", "inc.ninja", "inc2.ninja"} |-> IF f = "build.ninja" THEN p.main ELSE IF f = "inc.ninja" THEN p.inc ELSE p.inc2]

\* model checking: one state per sampled program; the reference must be total and errors must be classified
VARIABLE prog
Init == prog \in Programs
Next == UNCHANGED prog
Spec == Init /\ [][Next]_prog
Total == LET r == Eval(FilesOf(prog)) IN r.ok \/ r.err # ""
StopInit == prog = [main |-> <<>>, inc |-> <<>>, inc2 |-> <<>>]

ExpOn == "OUT" \in DOMAIN IOEnv
ASSUME ~ExpOn \/ ndJsonSerialize(IOEnv.OUT, SetToSeq({[files |-> Render(FilesOf(p)), exp |-> Eval(FilesOf(p))] : p \in Programs}))
=============================================================================
