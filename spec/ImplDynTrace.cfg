SPECIFICATION TSpec
CONSTANTS
  MaxInv = 100000000
  MaxEnv = 0
  MaxClock = 100000000
  Js = {1}
  Ks = {1}
  Crashes = FALSE
  Toks = {99}
  Prio = TRUE
POSTCONDITION TraceAccepted
CHECK_DEADLOCK FALSE
