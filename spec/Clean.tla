-------------------------------- MODULE Clean --------------------------------
(***************************************************************************)
(* C18, design level: src/clean.cc transcribed (Cleaner::LoadDyndeps,       *)
(* Remove with its removed_ set, CleanAll, DoCleanTarget with its cleaned_  *)
(* set, DoCleanRule, CleanDead) and checked by TLC against the reference    *)
(* sets of CleanRef for every graph of the exported family x every subset   *)
(* of files that exist x every build-log content x every scope, -g and -n:  *)
(*   Safe      nothing outside the scope, no source, no phony name, no      *)
(*             generator output without -g goes;                            *)
(*   Complete  every existing file of the scope goes (dry run: is counted,  *)
(*             nothing goes);                                               *)
(*   Ends      the walk by target ends on graphs with dependency cycles     *)
(*             (fuel is not used up).                                       *)
(* The same operator, applied to the recorded state of every Clean event of *)
(* the harness, must give the set of files the real Cleaner removed and its *)
(* count (conformance, CleanTrace.cfg).                                     *)
(***************************************************************************)
EXTENDS CleanRef, Json, IOUtils

\* ---- the cleaner as implemented --------------------------------------------------------------
\* Cleaner::LoadDyndeps: dyndep files that exist are loaded first; their outputs join the statement's outputs, their
\* inputs its implicit inputs
Known(gg, ex) ==
  [gg EXCEPT !.stmts = [i \in DOMAIN gg.stmts |->
     LET s == gg.stmts[i] IN
     IF s.dd # "" /\ s.dd \in ex THEN [s EXCEPT !.iouts = @ \o s.ddo, !.im = @ \o s.ddi, !.ddo = <<>>, !.ddi = <<>>]
     ELSE [s EXCEPT !.ddo = <<>>, !.ddi = <<>>]]]

\* c = [ex: files on disk, seen: removed_, gone: what was deleted, count: cleaned_files_count_]
C0(ex) == [ex |-> ex, seen |-> {}, gone |-> {}, count |-> 0]
\* Cleaner::Remove
Rm(c, p, dry) ==
  IF p \in c.seen THEN c
  ELSE IF p \in c.ex THEN [c EXCEPT !.seen = @ \cup {p}, !.count = @ + 1, !.gone = IF dry THEN @ ELSE @ \cup {p}, !.ex = IF dry THEN @ ELSE @ \ {p}]
  ELSE [c EXCEPT !.seen = @ \cup {p}]
RECURSIVE RmSeq(_, _, _, _)
RmSeq(c, q, k, dry) == IF k > Len(q) THEN c ELSE RmSeq(Rm(c, q[k], dry), q, k + 1, dry)
\* the outputs of a statement, then Cleaner::RemoveEdgeFiles (depfile, response file)
StmtFiles(s) == s.outs \o s.iouts \o (IF s.deps \in {"depfile", "gcc"} THEN <<DepfilePath(s)>> ELSE <<>>) \o (IF s.rsp THEN <<s.rsppath>> ELSE <<>>)

\* Cleaner::CleanAll
RECURSIVE AllFrom(_, _, _, _, _)
AllFrom(gg, c, i, gflag, dry) ==
  IF i > Len(gg.stmts) THEN c
  ELSE LET s == gg.stmts[i] IN
       AllFrom(gg, IF s.phony \/ (~gflag /\ s.gen) THEN c ELSE RmSeq(c, StmtFiles(s), 1, dry), i + 1, gflag, dry)

\* Cleaner::DoCleanTarget: a = [c, cleaned (cleaned_), fuel]
RECURSIVE Target(_, _, _, _)
RECURSIVE TargetIns(_, _, _, _, _)
Target(gg, a, n, dry) ==
  LET i == Prod(gg, n)
      a0 == [a EXCEPT !.cleaned = @ \cup {n}, !.fuel = @ - 1]        \* marked before the inputs are walked
  IN IF a.fuel = 0 THEN a
     ELSE IF i = 0 THEN a0
     ELSE LET s == gg.stmts[i]
              a1 == IF s.phony THEN a0 ELSE [a0 EXCEPT !.c = RmSeq(@, StmtFiles(s), 1, dry)]
          IN TargetIns(gg, a1, s.ex \o s.im \o s.oo, 1, dry)
TargetIns(gg, a, q, k, dry) ==
  IF k > Len(q) \/ a.fuel = 0 THEN a
  ELSE TargetIns(gg, IF q[k] \in a.cleaned THEN a ELSE Target(gg, a, q[k], dry), q, k + 1, dry)
RECURSIVE Targets(_, _, _, _, _)
Targets(gg, a, q, k, dry) == IF k > Len(q) THEN a ELSE Targets(gg, Target(gg, a, q[k], dry), q, k + 1, dry)

\* Cleaner::DoCleanRule for every named rule
RECURSIVE RuleFrom(_, _, _, _, _)
RuleFrom(gg, c, i, rules, dry) ==
  IF i > Len(gg.stmts) THEN c
  ELSE LET s == gg.stmts[i] IN
       RuleFrom(gg, IF ~s.phony /\ ("r" \o ToString(s.id)) \in rules THEN RmSeq(c, StmtFiles(s), 1, dry) ELSE c, i + 1, rules, dry)     \* (phony statements are skipped: a36984f)

\* Cleaner::CleanDead over the paths recorded in the build log
\* no in-edge, no out-edges, no validation out-edges (810add2)
DeadPaths(gg, logged) == {p \in logged : Prod(gg, p) = 0 /\ ~\E i \in DOMAIN gg.stmts : p \in ManIn(gg.stmts[i]) \cup ToS(gg.stmts[i].oo) \cup ToS(gg.stmts[i].val)}
RECURSIVE RmSet(_, _, _)
RmSet(c, S, dry) == IF S = {} THEN c ELSE LET p == CHOOSE x \in S : TRUE IN RmSet(Rm(c, p, dry), S \ {p}, dry)

Fuel(gg) == 4 * (Len(gg.stmts) + 2) * (Len(gg.stmts) + 2)
ImplClean(g0, ex, ev, logged) ==
  LET gg == Known(g0, ex) IN
  CASE ev.mode = "all" -> [c |-> AllFrom(gg, C0(ex), 1, ev.gflag, ev.n), ended |-> TRUE]
    [] ev.mode = "targets" -> LET a == Targets(gg, [c |-> C0(ex), cleaned |-> {}, fuel |-> Fuel(gg)], ev.args, 1, ev.n) IN [c |-> a.c, ended |-> a.fuel > 0]
    [] ev.mode = "rules" -> [c |-> RuleFrom(gg, C0(ex), 1, ToS(ev.args), ev.n), ended |-> TRUE]
    [] ev.mode = "dead" -> [c |-> RmSet(C0(ex), DeadPaths(gg, logged), ev.n), ended |-> TRUE]

\* ---- model checking: Impl against CleanRef -------------------------------------------------------
RawGraphs == ndJsonDeserialize(IF "GRAPHS" \in DOMAIN IOEnv THEN IOEnv.GRAPHS ELSE "graphs.ndjson")
Deco(gr) == [gr EXCEPT !.stmts = [i \in DOMAIN gr.stmts |-> gr.stmts[i] @@ [rsppath |-> gr.stmts[i].outs[1] \o ".rsp", en |-> "e", vstr |-> "v1", rsptxt |-> "", ddtxt |-> ""]]]
FilesOf(gg) == ToS(gg.srcs) \cup UNION {EdgeFiles(gg, i) : i \in DOMAIN gg.stmts} \cup UNION {ToS(gg.stmts[i].val) : i \in DOMAIN gg.stmts}
Ops(gg) ==
  {[mode |-> "all", args |-> <<>>, gflag |-> gf, n |-> n] : gf \in BOOLEAN, n \in BOOLEAN}
  \cup {[mode |-> "targets", args |-> <<t>>, gflag |-> FALSE, n |-> n] : t \in UNION {ToS(gg.stmts[i].outs) \cup ToS(gg.stmts[i].iouts) : i \in DOMAIN gg.stmts}, n \in BOOLEAN}
  \cup {[mode |-> "targets", args |-> SetToSeq(UNION {ToS(gg.stmts[i].outs) : i \in DOMAIN gg.stmts}), gflag |-> FALSE, n |-> FALSE]}
  \cup {[mode |-> "rules", args |-> <<"r" \o ToString(i)>>, gflag |-> FALSE, n |-> n] : i \in DOMAIN gg.stmts, n \in BOOLEAN}
  \cup {[mode |-> "rules", args |-> <<"phony">>, gflag |-> FALSE, n |-> n] : n \in BOOLEAN}
  \cup {[mode |-> "dead", args |-> <<>>, gflag |-> FALSE, n |-> n] : n \in BOOLEAN}

VARIABLES gr, ex, logged, ev
vars == <<gr, ex, logged, ev>>
Init == /\ gr \in {Deco(RawGraphs[k]) : k \in DOMAIN RawGraphs}
        /\ ex \in {ToS(gr.srcs) \cup X : X \in SUBSET (FilesOf(gr) \ ToS(gr.srcs))}
        \* the build log knows some outputs and, possibly, a path that no statement mentions any more (on disk or not)
        \* (and files that are validation targets without a statement of their own: outputs of a statement that was dropped)
        /\ logged \in {L \cup D \cup V : L \in {{}, AllOuts(gr)}, D \in {{}, {"gone"}},
                                        V \in {{}, {v \in UNION {ToS(gr.stmts[i].val) : i \in DOMAIN gr.stmts} : Prod(gr, v) = 0}}}
        /\ ev \in Ops(gr)
Next == UNCHANGED vars
Spec == Init /\ [][Next]_vars

Tree(S) == LET q == SetToSeq(S) IN [k \in DOMAIN q |-> [n |-> q[k], m |-> 1, c |-> Missing(q[k])]]
Here == ex \cup (IF "gone" \in logged THEN {"gone"} ELSE {})       \* the dead path may still be on disk
R == ImplClean(gr, Here, ev, logged)
ScopeNow == CleanScope(Known(gr, Here), Tree(Here), ev, [k \in 1..Cardinality(logged) |-> [o |-> SetToSeq(logged)[k]]])
Protected == ToS(gr.srcs) \cup UNION {Outs(gr.stmts[i]) : i \in {j \in DOMAIN gr.stmts : gr.stmts[j].phony}}
Safe == /\ R.c.gone \subseteq ScopeNow
        /\ R.c.gone \cap Protected = {}
        /\ (ev.mode = "all" /\ ~ev.gflag) => \A i \in DOMAIN gr.stmts : gr.stmts[i].gen => R.c.gone \cap Outs(gr.stmts[i]) = {}
Complete == LET existing == ScopeNow \cap Here IN
            IF ev.n THEN R.c.gone = {} /\ R.c.count = Cardinality(existing) ELSE R.c.gone = existing /\ R.c.count = Cardinality(existing)
Ends == R.ended

=============================================================================
