"""Function-level checks in the 'transcribed function' style: a TLA+ reference,
TLC enumerates the bounded input space and checks the laws on the reference
(model checking), every enumerated input becomes an implementation test
(spec -> code), and seeded random calls of the real function are validated by
TLC against the reference (code -> spec)."""
import json, os, shutil, subprocess, time
from common import *
import nbuild


def mc_run(module, cfg_text, wd, workers=NCPU, env=None, timeout=1500, xmx="8g"):
    cfg = os.path.join(wd, "mc_%s.cfg" % module.replace(".tla", ""))
    open(cfg, "w").write(cfg_text)
    r = run_tlc(module, cfg, env=env, workers=workers, extra=["-noGenerateSpecTE"], timeout=timeout, xmx=xmx)
    return r


def export_vectors(module, wd, env, name="vectors.ndjson", cfg_text="SPECIFICATION Spec\nCONSTANT MaxLen = 0\nCHECK_DEADLOCK FALSE\n", timeout=1500, xmx="8g"):
    out = os.path.join(wd, name)
    e = dict(env)
    e["OUT"] = out
    r = mc_run(module, cfg_text, wd, workers=1, env=e, timeout=timeout, xmx=xmx)
    if r["error"] or not os.path.exists(out):
        raise Broken("export from %s failed: %s\n%s" % (module, r["error"], r["out"][-1500:]))
    return out


def fn_check(fnbin, fn, vectors, wd):
    mis = vectors + ".mis"
    r = subprocess.run(["timeout", "1200", fnbin, "check", fn, vectors, mis], capture_output=True, text=True)
    if r.returncode != 0:
        raise Broken("fn check failed rc=%d %s" % (r.returncode, r.stderr[-500:]))
    n = 0
    for tok in r.stderr.split():
        if tok.startswith("vectors="):
            n = int(tok.split("=")[1])
    bad = [json.loads(l) for l in open(mis) if l.strip()]
    return n, bad


def validate_calls(trace_spec, shards, wd):
    """shards: list of trace files; returns (calls, violations list with shard path)."""
    def go(tp):
        vp = tp + ".viol"
        r = run_tlc(trace_spec + ".tla", trace_spec + ".cfg", env={"TRACE": tp, "VIOL": vp}, workers=1, extra=["-noGenerateSpecTE"], timeout=1500, xmx="2g")
        if r["error"] or not os.path.exists(vp):
            r = run_tlc(trace_spec + ".tla", trace_spec + ".cfg", env={"TRACE": tp, "VIOL": vp}, workers=1, extra=["-noGenerateSpecTE"], timeout=1500, xmx="2g")
            if r["error"] or not os.path.exists(vp):
                raise Broken("trace validation %s failed: %s\n%s" % (trace_spec, r["error"], r["out"][-1500:]))
        d = json.loads(open(vp).read().split("\n")[0])
        return tp, d, r
    return parallel(go, shards)


def bytes_to_text(a):
    return "".join(chr(x) if 32 <= x < 127 else "\\x%02x" % x for x in a)
