"""Registry: property id -> check function(pid, tier, replay_path)."""
import engine

REGISTRY = {}


def reg(*ids):
    def deco(fn):
        for i in ids:
            REGISTRY[i] = fn
        return fn
    return deco


def _fams(quick, thorough, tier):
    return quick if tier == "quick" else thorough


@reg("C01", "C02", "C03")
def incremental(pid, tier, replay):
    if replay:
        return engine.engine_replay(pid, replay)
    fams = _fams(
        [dict(fam="inc", K=6, CH=4), dict(fam="inc2", K=4, CH=4), dict(fam="partial", K=4, CH=4)],
        [dict(fam="inc", K=60, CH=30), dict(fam="inc2", K=30, CH=12), dict(fam="partial", K=30, CH=12)], tier)
    return engine.engine_check(pid, fams, tier, maxruns=16 if tier == "quick" else 64)


@reg("C04")
def ordering(pid, tier, replay):
    if replay:
        return engine.engine_replay(pid, replay)
    fams = _fams([dict(fam="sched", K=8, CH=1), dict(fam="inc", K=3, CH=3)],
                 [dict(fam="sched", K=81, CH=1), dict(fam="inc", K=30, CH=10)], tier)
    return engine.engine_check(pid, fams, tier, maxruns=64 if tier == "quick" else 2000)


@reg("C05")
def failures(pid, tier, replay):
    if replay:
        return engine.engine_replay(pid, replay)
    fams = _fams([dict(fam="fail", K=3, CH=3)], [dict(fam="fail", K=27, CH=40)], tier)
    return engine.engine_check(pid, fams, tier, maxruns=32 if tier == "quick" else 500)
