"""Registry: property id -> check function(pid, tier, replay_path)."""
import engine

REGISTRY = {}


def reg(*ids):
    def deco(fn):
        for i in ids:
            REGISTRY[i] = fn
        return fn
    return deco


def _fams(quick, thorough, tier):
    return quick if tier == "quick" else thorough


@reg("C01", "C02", "C03")
def incremental(pid, tier, replay):
    if replay:
        return engine.engine_replay(pid, replay)
    fams = _fams(
        [dict(fam="inc", K=6, CH=4), dict(fam="inc2", K=4, CH=4), dict(fam="partial", K=4, CH=4), dict(fam="rand", K=12, CH=4), dict(fam="editrun", K=2, CH=2), dict(fam="restat", K=16, CH=4), dict(fam="flip", K=3, CH=3), dict(fam="hsw", K=1, CH=1), dict(fam="faildep", K=3, CH=1)],
        [dict(fam="inc", K=30, CH=12), dict(fam="inc2", K=20, CH=8), dict(fam="partial", K=20, CH=8), dict(fam="rand", K=80, CH=6), dict(fam="editrun", K=10, CH=4), dict(fam="restat", K=120, CH=8), dict(fam="flip", K=12, CH=8), dict(fam="hsw", K=1, CH=1), dict(fam="faildep", K=20, CH=1)], tier)
    q = tier == "quick"
    design = None
    if pid == "C03":
        design = dict(K=1 if q else 3, consts={"MaxInv": 2 if q else 3, "MaxEnv": 1 if q else 2, "MaxClock": 40, "Js": "{1, 2}", "Ks": "{1}", "Crashes": "FALSE", "Toks": "{99}", "Prio": "FALSE"},
                      invariants=["NoStale", "Minimal", "SecondIsNoop"], timeout=70 if q else 2400, ngraphs=6 if q else None)
    # the same monitors on the real binary and the real file system (RealDiskInterface: stat, mkdir, unlink, real mtimes)
    h2 = dict(fams=[dict(fam="inc", K=2 if q else 10, CH=3 if q else 6), dict(fam="restat", K=2 if q else 20, CH=2 if q else 4)], limit=90 if q else 1500, maxruns=2)
    if pid == "C02":
        # logs padded past their recompaction thresholds: NinjaMain::IsPathDead / DepsLog::IsDepsEntryLiveFor decide what survives
        fams = fams + [dict(fam="logs", K=2 if q else 10, CH=2 if q else 6)]
        h2["fams"] = h2["fams"] + [dict(fam="logs", K=1 if q else 6, CH=1 if q else 4, keep=True)]
        h2["limit"] = 120 if q else 2000
    return engine.engine_check(pid, fams, tier, maxruns=16 if tier == "quick" else 64, design=design, impl=(pid == "C01"), h2=h2)


@reg("C04")
def ordering(pid, tier, replay):
    if replay:
        return engine.engine_replay(pid, replay)
    fams = _fams([dict(fam="sched", K=8, CH=1), dict(fam="inc", K=3, CH=3), dict(fam="dyn", K=1, CH=3), dict(fam="pools", K=1, CH=1), dict(fam="restat", K=6, CH=3), dict(fam="twin", K=1, CH=1), dict(fam="dirs", K=1, CH=2)],
                 [dict(fam="sched", K=81, CH=1), dict(fam="inc", K=30, CH=10), dict(fam="dyn", K=1, CH=30), dict(fam="pools", K=8, CH=1), dict(fam="rand", K=100, CH=4), dict(fam="dirs", K=6, CH=6)], tier)
    q = tier == "quick"
    design = dict(K=1 if q else 3, consts={"MaxInv": 1 if q else 2, "MaxEnv": 1, "MaxClock": 40, "Js": "{1, 2, 3}", "Ks": "{1, 0}", "Crashes": "FALSE", "Toks": "{99}", "Prio": "FALSE"},
                  invariants=["Ordered", "Limits"], timeout=60 if q else 2400, ngraphs=10 if q else None)
    return engine.engine_check(pid, fams, tier, maxruns=64 if tier == "quick" else 2000, design=design)


@reg("C05")
def failures(pid, tier, replay):
    if replay:
        return engine.engine_replay(pid, replay)
    fams = _fams([dict(fam="fail", K=3, CH=3)], [dict(fam="fail", K=27, CH=40)], tier)

    def codes(s):
        # real processes: exit statuses that ParseExitStatus has to pass through unchanged (130 is the interrupt status and excluded)
        n = sum(ord(c) for c in s["id"])
        for st in s["hist"]:
            for f in st.get("fail", []):
                f["code"] = [143, 129, 255, 127, 2, 1, 126, 64][(n + f["s"]) % 8]
        return s
    h2 = dict(fams=[dict(fam="fail", K=2, CH=2, mut=codes)], limit=120 if tier == "quick" else 1500, maxruns=3)
    q = tier == "quick"
    design = dict(K=1 if q else 3, consts={"MaxInv": 1 if q else 2, "MaxEnv": 1, "MaxClock": 40, "Js": "{1, 2}", "Ks": "{1, 2, 0}", "Crashes": "FALSE", "Toks": "{99}", "Prio": "FALSE"},
                  invariants=["Contained", "Limits"], timeout=60 if q else 2400, ngraphs=8 if q else None)
    return engine.engine_check(pid, fams, tier, maxruns=32 if tier == "quick" else 500, h2=h2, design=design)


# ---------------------------------------------------------------------------
import tempfile
import json, os, shutil, subprocess, time
import fnlib, nbuild
from common import *


@reg("C14")
def canon(pid, tier, replay):
    t0 = time.time()
    bins = nbuild.build("dbg", ["fn"])
    wd = scratch(pid)
    try:
        found = []
        if replay:
            rp = json.load(open(replay))
            vec = os.path.join(wd, "v.ndjson")
            open(vec, "w").write(json.dumps({"in": rp["in"], "exp": rp["exp"]}) + "\n")
            n, bad = fnlib.fn_check(bins["fn"], "canon", vec, wd)
            if bad:
                found.append((replay, "CanonicalizePath(%r) = %r, reference %r" % (fnlib.bytes_to_text(rp["in"]), fnlib.bytes_to_text(bad[0]["got"]), fnlib.bytes_to_text(rp["exp"]))))
            return report(pid, found, {})
        maxlen = 9 if tier == "quick" else 10
        explen = 8 if tier == "quick" else 9      # TLC builds the exported set in memory (limit 1,000,000 elements)
        ngen = 150 if tier == "quick" else 1500
        # 1. laws on the reference, exhaustively (one state per string)
        mc = fnlib.mc_run("CanonPath.tla", "SPECIFICATION Spec\nCONSTANT MaxLen = %d\nINVARIANT LawsHold\nCHECK_DEADLOCK FALSE\n" % maxlen, wd)
        if mc["error"]:
            raise Broken("CanonPath model check failed: %s\n%s" % (mc["error"], mc["out"][-1500:]))
        # 2. spec -> code
        vec = fnlib.export_vectors("CanonPath.tla", wd, {"EXPLEN": explen})
        nvec, bad = fnlib.fn_check(bins["fn"], "canon", vec, wd)
        for b in bad[:25]:
            p = save_replay(pid, "vec-" + "-".join(map(str, b["in"]))[:60], {"property": pid, "in": b["in"], "exp": b["exp"], "got": b["got"], "problem": b["problem"]})
            found.append((p, "CanonicalizePath(%r) = %r, reference %r %s" % (fnlib.bytes_to_text(b["in"]), fnlib.bytes_to_text(b["got"]), fnlib.bytes_to_text(b["exp"]), b["problem"])))
        # 3. code -> spec: seeded random long paths, arbitrary bytes
        shards = []
        for k in range(NCPU):
            tp = os.path.join(wd, "gen.%d.ndjson" % k)
            subprocess.run([bins["fn"], "gen", "canon", str(seed() * 1000 + k), str(ngen), tp], check=True)
            shards.append(tp)
        calls = 0
        nviol = len(bad)
        for tp, d, r in fnlib.validate_calls("CanonTrace", shards, wd):
            calls += d["stats"]["calls"]
            lines = open(tp).read().split("\n")
            for v in d["viol"]:
                nviol += 1
                e = json.loads(lines[v["l"] - 1])
                p = save_replay(pid, "gen-%s-%d" % (os.path.basename(tp), v["l"]), {"property": pid, "in": e["in"], "exp": [], "got": e["out"], "note": "reference value is computed by TLC (CanonRef!Canon); replay re-runs the trace validation of this call"})
                found.append((p, "random path: CanonicalizePath(%r) = %r rejected by CanonRef" % (fnlib.bytes_to_text(e["in"])[:80], fnlib.bytes_to_text(e["out"])[:80])))
        sample = [json.loads(l) for l in open(vec).read().split("\n")[1000:1004] if l]
        write_evidence(pid, tier, "model_checking", {
            "states": mc["distinct"], "transitions": mc["states"],
            "traces_validated_against_impl": nvec + calls,
            "samples": [{"in": fnlib.bytes_to_text(s["in"]), "expected": fnlib.bytes_to_text(s["exp"])} for s in sample],
            "evaluations": nvec + calls, "distinct_nontrivial": nvec,
            "rule": "every string over {a,b,.,/} up to length %d is one TLC state (laws checked on the reference) and, up to length %d, one implementation test with the TLC-computed expectation; plus %d seeded random long paths validated code->spec" % (maxlen, explen, calls),
            "exhaustive": True, "alphabet": "a b . /", "max_len_laws": maxlen, "max_len_impl_tests": explen, "random_calls": calls,
        }, time.time() - t0, nviol, ["TLC", "CanonRef.tla is the meaning of 'lexically equal' (one-step rewrites) and of the normal form"])
        return report(pid, found, {})
    finally:
        shutil.rmtree(wd, ignore_errors=True)


def _sh_batch(argvbin, items):
    """items: list of (text bytes, expected list of bytes words).  Runs them through /bin/sh -c in one
    shell; returns list of indices whose argv differs."""
    script = b"".join(argvbin.encode() + b" " + t + b"\n" for t, _ in items)
    r = subprocess.run(["/bin/sh", "-c", script], capture_output=True, timeout=120)
    recs = r.stdout.split(b"\n")
    if recs and recs[-1] == b"":
        recs = recs[:-1]
    want = [b"".join(w + b"\0" for w in ws) for _, ws in items]
    if recs == want and r.returncode == 0 and not r.stderr:
        return []
    if len(items) == 1:
        return [0]
    # pinpoint
    mid = len(items) // 2
    return _sh_batch(argvbin, items[:mid]) + [mid + i for i in _sh_batch(argvbin, items[mid:])]


@reg("C16")
def shellquote(pid, tier, replay):
    t0 = time.time()
    bins = nbuild.build("dbg", ["fn", "argv", "h1"])
    wd = scratch(pid)
    try:
        found = []
        if replay:
            rp = json.load(open(replay))
            if "scenario" in rp:
                return engine.engine_replay(pid, replay)
            vec = os.path.join(wd, "v.ndjson")
            open(vec, "w").write(json.dumps({"names": rp["names"], "sp": rp["sp"], "nl": rp["nl"]}) + "\n")
            n, rows = fnlib.fn_check(bins["fn"], "expand", vec, wd)
            names = [bytes(n) for n in rp["names"]]
            shbad = _sh_batch(bins["argv"], [(bytes(rows[0]["sp"]), names)])
            if shbad:
                found.append((replay, "/bin/sh reads %r as something other than %r" % (bytes(rows[0]["sp"]), names)))
            return report(pid, found, {})
        mc = fnlib.mc_run("ShellQuote.tla", open(os.path.join(SPEC, "MC_ShellQuote.cfg")).read(), wd)
        if mc["error"]:
            raise Broken("ShellQuote model check failed: %s\n%s" % (mc["error"], mc["out"][-1500:]))
        which = ["1", "3", "L", "2"]
        vecs = parallel(lambda w: fnlib.export_vectors("ShellQuote.tla", wd, {"WHICH": w}, name="vec%s.ndjson" % w,
                                                       cfg_text="SPECIFICATION Spec\nCHECK_DEADLOCK FALSE\nCONSTRAINT NoStates\n"), which) if False else None
        # export needs no state exploration: use a config with a constraint-free spec but stop at the ASSUME
        vecs = []
        for w in which:
            vecs.append(fnlib.export_vectors("ShellQuote.tla", wd, {"WHICH": w}, name="vec%s.ndjson" % w,
                                             cfg_text="INIT Init\nNEXT StopNext\nCHECK_DEADLOCK FALSE\n"))
        nvec = 0
        nviol = 0
        drift = 0
        items = []   # for the sh binding: the REAL expansions
        SAFE = set(b"abcdefghijklmnopqrstuvwxyzABCDEFGHIJKLMNOPQRSTUVWXYZ0123456789_+-./")
        for vp in vecs:
            n, rows = fnlib.fn_check(bins["fn"], "expand", vp, wd)
            nvec += n
            for j in rows:
                names = [bytes(x) for x in j["names"]]
                if j["drift"]:
                    drift += 1     # differs from the reference quoting text: Impl-level information only
                if j["problem"]:
                    raise Broken("expand harness: " + j["problem"])
                sp, nl, out = bytes(j["sp"]), bytes(j["nl"]), bytes(j["out"])
                # names that need no quoting are passed verbatim
                if all(set(nm) <= SAFE for nm in names) and sp != b" ".join(names):
                    nviol += 1
                    if len(found) < 25:
                        p = save_replay(pid, "verbatim-%d" % nviol, {"property": pid, "names": j["names"], "sp": j["sp"], "nl": j["nl"]})
                        found.append((p, "safe names %r are not passed verbatim: %r" % (names, sp)))
                items.append((sp, names, j))
                if len(names) > 1:
                    for ln, nm in zip(nl.split(b"\n"), names):
                        items.append((ln, [nm], j))
                if len(names) > 1 or len(names[0]) <= 1 or names[0][0] in (39, 92, 32, 36):
                    items.append((out, [b"o%d-" % i + x for i, x in enumerate(names)], j))
        # the real /bin/sh must rebuild exactly the names
        batches = [items[i:i + 400] for i in range(0, len(items), 400)]
        res = parallel(lambda b: _sh_batch(bins["argv"], [(t, w) for t, w, _ in b]), batches)
        shruns = len(batches)
        for b, badidx in zip(batches, res):
            for i in badidx:
                nviol += 1
                if len(found) < 25:
                    t, w, j = b[i]
                    p = save_replay(pid, "sh-%d" % nviol, {"property": pid, "names": j["names"], "sp": j["sp"], "nl": j["nl"], "text": list(t)})
                    found.append((p, "/bin/sh reads %r as something other than the words %r" % (t, w)))
        # response-file clauses: engine traces
        fams = [dict(fam="inc", K=4 if tier == "quick" else 30, CH=3 if tier == "quick" else 8),
                dict(fam="fail", K=2 if tier == "quick" else 10, CH=2 if tier == "quick" else 6)]
        sd = seed()
        scen = [s for s in engine.load_scenarios(fams, sd) if any(st.get("rsp") for st in s["stmts"])] or engine.load_scenarios(fams[:1], sd)[:50]
        # make sure response files are exercised: give every command statement of half of the scenarios one
        for k, s in enumerate(scen):
            if k % 2 == 0:
                for st in s["stmts"]:
                    if not st["phony"]:
                        st["rsp"] = True
                        if k % 4 == 2 and st["id"] % 2 == 0:
                            st["rspver"] = 0      # a response file whose content evaluates to nothing
        files, execs, capped = engine.run_h1(bins["h1"], scen, wd, 8, sd)
        rspv = 0
        by_id = {s["id"]: s for s in scen}
        estates = 0
        for (sp, tp), (d, r) in zip(files, engine.validate(files, wd)):
            estates += r["states"]
            for v in d["viol"]:
                if v["p"] != pid:
                    continue
                rspv += 1
                nviol += 1
                scid, run, choices, ev = engine.locate(tp, v["l"])
                if len(found) < 25:
                    p = save_replay(pid, "%s-run%d-l%d" % (scid, run, v["l"]), {"property": pid, "scenario": by_id.get(scid), "choices": choices, "violation": v})
                    found.append((p, v["what"]))
        # the same clauses on the real binary and the real file system (RealDiskInterface::WriteFile, unlink): a failing
        # command leaves its response file behind, the content then changes (to a shorter one) and the command runs again
        def rsp_history(s):
            h0 = s["hist"][0]
            if not (isinstance(h0, dict) and h0.get("fail")):
                return None
            for st in s["stmts"]:
                if not st["phony"]:
                    st["rsp"] = True
            # the content shrinks, or (every other scenario) becomes empty
            s["hist"] = [h0] + [dict({"op": "rspver", "s": f["s"]}, **({"to": 0} if (len(s["stmts"]) + f["s"]) % 2 else {})) for f in h0["fail"]] + s["hist"][1:]
            return s
        scen2 = engine.load_scenarios([dict(fam="fail", K=2 if tier == "quick" else 10, CH=2 if tier == "quick" else 6, mut=rsp_history)], sd)
        import random
        random.Random(sd).shuffle(scen2)
        scen2 = scen2[:60 if tier == "quick" else 800]
        for s2 in scen2:
            s2["id"] = "h2:" + s2["id"]
            by_id[s2["id"]] = s2
        files2, h2execs = engine.run_h2(scen2, wd, 2)
        for (sp, tp), (d, r) in zip(files2, engine.validate(files2, wd)):
            estates += r["states"]
            for v in d["viol"]:
                if v["p"] != pid:
                    continue
                rspv += 1
                nviol += 1
                scid, run, choices, ev = engine.locate(tp, v["l"])
                if len(found) < 25:
                    p = save_replay(pid, "%s-run%d-l%d" % (scid, run, v["l"]), {"property": pid, "scenario": by_id.get(scid), "choices": choices, "violation": v, "h2": True})
                    found.append((p, v["what"] + " (real binary)"))
        write_evidence(pid, tier, "model_checking", {
            "states": mc["distinct"] + estates, "transitions": mc["states"] + estates, "real_binary_executions_with_rspfiles": h2execs,
            "traces_validated_against_impl": nvec + execs,
            "samples": [{"names": [fnlib.bytes_to_text(n) for n in items[k][2]["names"]], "text": fnlib.bytes_to_text(items[k][0])} for k in (5, 300, 70000) if k < len(items)],
            "evaluations": nvec + len(items) + execs, "distinct_nontrivial": nvec,
            "rule": "every name of <= 2 bytes over 1..255 without newline, every 3-byte name over a 24-character shell-special alphabet, every list of <= 3 hostile names: "
                    "one TLC state each (ShWords(JoinQ(names)) = names), one implementation test each ($in/$in_newline through the real Edge), one /bin/sh execution each; "
                    "rspfile clauses on engine executions",
            "exhaustive": True, "impl_conformance": {"expansions_equal_to_reference_text": nvec - drift, "differing": drift}, "sh_invocations": shruns, "sh_word_checks": len(items), "engine_executions_with_rspfiles": execs,
        }, time.time() - t0, nviol, ["TLC", "ShellQuote.tla word-formation model, itself bound to the real /bin/sh (dash) by executing every expected text"])
        return report(pid, found, {})
    finally:
        shutil.rmtree(wd, ignore_errors=True)


def _log_check(pid, tier, replay, kind, model, mc_cfg, trace_spec, seqfams, gen_n, viol_ids):
    """Common driver of C08/C09: MC of the format design, TLC-exported operation sequences and seeded
    random long histories replayed on the real class, TLC validation of every recorded execution."""
    t0 = time.time()
    bins = nbuild.build("dbg", ["logh"])
    wd = scratch(pid)
    try:
        found, nviol = [], 0
        if replay:
            rp = json.load(open(replay))
            seqs = [rp["sequence"]] if "sequence" in rp else []
            mc = {"distinct": 0, "states": 0}
        else:
            mc = fnlib.mc_run(model, mc_cfg, wd, xmx="16g")
            if mc["error"]:
                raise Broken("%s model check failed: %s\n%s" % (model, mc["error"], mc["out"][-2000:]))
            def exp(fk):
                f, k = fk
                return fnlib.export_vectors(model, wd, {"SEQ": f, "K": k}, name="seq_%s.ndjson" % f,
                                            cfg_text="INIT Init\nNEXT StopNext\nCONSTANT MaxOps = 0\nCHECK_DEADLOCK FALSE\n")
            # TLC's RandomSubset is seeded by -seed: pass it through extra env of run_tlc via JAVA opts is not possible; export is deterministic per spec
            paths = parallel(exp, seqfams)
            seqs = []
            for p in paths:
                seqs += [json.loads(l) for l in open(p) if l.strip()]
            gp = os.path.join(wd, "gen.ndjson")
            subprocess.run([bins["logh"], "gen", kind, str(seed()), str(gen_n), gp], check=True)
            seqs += [json.loads(l) for l in open(gp) if l.strip()]
        shards = []
        n = min(NCPU, max(1, len(seqs)))
        for k in range(n):
            sp = os.path.join(wd, "seqs.%d.ndjson" % k)
            with open(sp, "w") as f:
                for s in seqs[k::n]:
                    f.write(json.dumps(s) + "\n")
            tp = os.path.join(wd, "trace.%d.ndjson" % k)
            shards.append((sp, tp))
        def run(pair):
            r = subprocess.run(["timeout", "900", bins["logh"], "run", kind, pair[0], pair[1]], capture_output=True, text=True)
            if r.returncode != 0:
                raise Broken("logh failed rc=%d %s" % (r.returncode, r.stderr[-500:]))
        parallel(run, shards)
        stats = {}
        tstates = 0
        impl_drift = 0
        for (sp, tp), (tp2, d, r) in zip(shards, fnlib.validate_calls(trace_spec, [t for _, t in shards], wd)):
            tstates += r["states"]
            for k, v in d["stats"].items():
                stats[k] = stats.get(k, 0) + v
            lines = None
            for v in d["viol"]:
                if v["p"] == "IMPL":
                    impl_drift += 1
                    continue
                if v["p"] not in viol_ids:
                    continue
                nviol += 1
                if len(found) < 25:
                    sq = [json.loads(x) for x in open(sp) if x.strip()][v["sc"]]
                    if lines is None:
                        lines = open(tp).read().split("\n")
                    ev = json.loads(lines[v["l"] - 1])
                    p = replay or save_replay(pid, "%s-%d-l%d" % (os.path.basename(tp), v["sc"], v["l"]), {"property": pid, "sequence": sq, "violation": v})
                    found.append((p, "%s (operation %s)" % (v["what"], json.dumps({k: x for k, x in ev.items() if k not in ("bytes", "entries", "table")})[:200])))
        known_hits = {}
        dead = None
        if kind == "blog" and (not replay or json.load(open(replay)).get("deadpath")):
            known = {k["id"]: k for k in load_known_findings() if k.get("status") == "open" and pid in k.get("properties", [])}
            dead = _deadpath_conformance(pid, wd)
            for trigger, lost, changed in dead:
                if not lost and not changed:
                    continue
                # signature of KF-RESTAT-RECOMPACT-NO-MANIFEST: -t restat, and only the output that is in the manifest but not on disk
                if trigger == "restat" and lost == ["m"] and not changed and "KF-RESTAT-RECOMPACT-NO-MANIFEST" in known:
                    w, n_ = known_hits.get("KF-RESTAT-RECOMPACT-NO-MANIFEST", (known["KF-RESTAT-RECOMPACT-NO-MANIFEST"]["what"], 0))
                    known_hits["KF-RESTAT-RECOMPACT-NO-MANIFEST"] = (w, n_ + 1)
                    continue
                nviol += 1
                p = replay or save_replay(pid, "deadpath-%s" % trigger, {"property": pid, "deadpath": True, "trigger": trigger, "lost": lost, "changed": changed})
                found.append((p, "recompaction by '%s' lost the records of %s / changed the command hashes of %s (outputs still in the manifest or on disk)" % (trigger, lost, changed)))
        if replay and json.load(open(replay)).get("deadpath"):
            return report(pid, found, known_hits)
        if not replay:
            write_evidence(pid, tier, "model_checking", {
                "states": mc["distinct"] + tstates, "transitions": mc["states"] + tstates,
                "traces_validated_against_impl": stats.get("seqs", 0),
                "dead_path_conformance": [{"trigger": t_, "lost": l_, "changed_hashes": c_} for t_, l_, c_ in dead] if dead is not None else None,
                "samples": seqs[:2] + seqs[-1:],
                "evaluations": stats.get("ops", 0), "distinct_nontrivial": stats.get("seqs", 0),
                "rule": "operation sequences (record / tear at every byte offset of the tail / append behind the tear / reopen / recompact / restat / version) "
                        "exported by TLC from the model's alphabet plus seeded random long histories; each executed on the real class with real files and "
                        "validated operation by operation by TLC against the property-level clauses; non-trivial = sequences (all contain a tear, a maintenance op or >= 20 ops)",
                "design_states": mc["distinct"], "operations": stats.get("ops", 0), "loads_checked": stats.get("loads", 0), "tears": stats.get("tears", 0),
                "impl_conformance": {"rejected": impl_drift}, "exhaustive": False,
            }, time.time() - t0, nviol, ["TLC", "the property-level clauses of the *Ref module", "the harness truncates/damages files exactly as logged"])
        return report(pid, found, known_hits)
    finally:
        shutil.rmtree(wd, ignore_errors=True)


def _deadpath_conformance(pid, wd):
    """The clause "recompaction keeps the latest record of every output that is still in the manifest or on disk, -t restat changes only
    the recorded mtimes" on the real binary: whether a log path is dead is decided by NinjaMain::IsPathDead (ninja.cc), which the log
    harness replaces by a stub.  Four outputs - in the manifest and on disk (k), left the manifest but on disk (g), left the manifest
    and deleted (x), in the manifest but deleted (m) - a log padded past the recompaction threshold with duplicate records, and the three
    invocations that can recompact: a build, -t recompact, -t restat.  Reference (BuildLogRef!DeadPath): only x may lose its record."""
    ninja = nbuild.build("dbg", ["ninja"])["ninja"]
    out = []   # (trigger, lost outputs, changed hashes)
    for trigger in ("build", "recompact", "restat"):
        d = tempfile.mkdtemp(dir=wd, prefix="dead-")
        man = "rule cp\n  command = cp $in $out\n" + "".join("build %s: cp s\n" % o for o in "kgxm")
        open(os.path.join(d, "build.ninja"), "w").write(man)
        open(os.path.join(d, "s"), "w").write("hi\n")
        r = subprocess.run([ninja, "-C", d], capture_output=True, text=True)
        if r.returncode != 0:
            raise Broken("dead-path scenario: first build failed: " + r.stdout[-300:])
        open(os.path.join(d, "build.ninja"), "w").write("rule cp\n  command = cp $in $out\nbuild k: cp s\nbuild m: cp s\n")
        os.remove(os.path.join(d, "x"))
        os.remove(os.path.join(d, "m"))
        lp = os.path.join(d, ".ninja_log")
        lines = open(lp).read().split("\n")
        before = {l.split("\t")[3]: l.split("\t")[4] for l in lines if l and not l.startswith("#")}
        krec = [l for l in lines if l.split("\t")[3:4] == ["k"]][0]
        open(lp, "a").write("".join(krec + "\n" for _ in range(160)))
        args = {"build": ["k"], "recompact": ["-t", "recompact"], "restat": ["-t", "restat"]}[trigger]
        r = subprocess.run([ninja, "-C", d] + args, capture_output=True, text=True)
        if r.returncode != 0:
            raise Broken("dead-path scenario: %s failed: %s" % (trigger, r.stdout[-300:]))
        after_lines = [l for l in open(lp).read().split("\n") if l and not l.startswith("#")]
        if len(after_lines) > 20:
            raise Broken("dead-path scenario: the padded log was not recompacted by %s (%d records)" % (trigger, len(after_lines)))
        after = {l.split("\t")[3]: l.split("\t")[4] for l in after_lines}
        lost = sorted(o for o in "kgm" if o not in after)
        changed = sorted(o for o in "kgm" if o in after and after[o] != before[o])
        out.append((trigger, lost, changed))
    return out


@reg("C08")
def buildlog(pid, tier, replay):
    q = tier == "quick"
    return _log_check(pid, tier, replay, "blog", "BuildLog.tla",
                      "SPECIFICATION Spec\nCONSTANT MaxOps = %d\nINVARIANT SafeInv\nINVARIANT CompleteInv\nINVARIANT ExactInv\nCHECK_DEADLOCK FALSE\n" % (4 if q else 5),
                      "BuildLogTrace", [("tear1", 3 if q else 12), ("tear2", 2 if q else 6), ("maint", 3 if q else 12), ("version", 3 if q else 12)],
                      40 if q else 600, {"C08"})


@reg("C09")
def depslog(pid, tier, replay):
    q = tier == "quick"
    return _log_check(pid, tier, replay, "dlog", "DepsLog.tla",
                      "SPECIFICATION Spec\nCONSTANT MaxOps = %d\nINVARIANT TableIsHistory\nINVARIANT ReloadAgrees\nCHECK_DEADLOCK FALSE\n" % (4 if q else 6),
                      "DepsLogTrace", [("tear1", 2 if q else 6), ("tear2", 2 if q else 6), ("damage", 2 if q else 6), ("recompact", 3 if q else 8), ("recompact2", 2 if q else 6)],
                      40 if q else 600, {"C09"})


@reg("C15")
def depfile(pid, tier, replay):
    t0 = time.time()
    bins = nbuild.build("dbg", ["fn"])
    wd = scratch(pid)
    known = {k["id"]: k for k in load_known_findings() if k.get("status") == "open" and pid in k.get("properties", [])}
    try:
        found, known_hits, nviol = [], {}, 0

        def judge(b, path_hint):
            """b: mismatch row from fn check.  Returns None or text."""
            nonlocal nviol
            text = bytes(b["in"])
            # signature of KF-DEPFILE-BSLASH-DOLLAR: a name with a backslash directly before '$' (written \$$)
            kf = "KF-DEPFILE-BSLASH-DOLLAR" if b"\\$$" in text else ""
            if kf and kf in known:
                w, n = known_hits.get(kf, (known[kf]["what"], 0))
                known_hits[kf] = (w, n + 1)
                return
            nviol += 1
            if len(found) < 25:
                p = path_hint or save_replay(pid, "vec-%d" % nviol, {"property": pid, "in": b["in"], "exp": b["exp"], "got": b["got"]})
                found.append((p, "depfile %r read as %s, the compilers' dialect means %s" % (text, json.dumps(b["got"])[:150], json.dumps(b["exp"])[:150])))

        if replay:
            rp = json.load(open(replay))
            vec = os.path.join(wd, "v.ndjson")
            open(vec, "w").write(json.dumps({"in": rp["in"], "exp": rp["exp"]}) + "\n")
            n, bad = fnlib.fn_check(bins["fn"], "depfile", vec, wd)
            for b in bad:
                judge(b, replay)
            return report(pid, found, known_hits)
        fams = ["dep3", "dep111", "tgt2", "rules", "reject", "long", "dep22"]
        K = 30 if tier == "quick" else 400
        def mc(w):
            r = fnlib.mc_run("Depfile.tla", "SPECIFICATION Spec\nCONSTANT Which = \"%s\"\nINVARIANT RoundTrip\nINVARIANT NoColonRejected\nCHECK_DEADLOCK FALSE\n" % w,
                             os.path.join(wd, w), workers=4, env={"K": K}, xmx="4g")
            if r["error"]:
                raise Broken("Depfile model check (%s) failed: %s\n%s" % (w, r["error"], r["out"][-1500:]))
            return r
        for w in fams:
            os.makedirs(os.path.join(wd, w))
        mcs = parallel(mc, fams)
        vecs = parallel(lambda w: fnlib.export_vectors("Depfile.tla", os.path.join(wd, w), {"WHICH": w, "K": K},
                                                       cfg_text="INIT Init\nNEXT Next\nCONSTANT Which = \"reject\"\nCHECK_DEADLOCK FALSE\n", xmx="6g"), fams)
        # collisions (two rule lists, one text) computed over the union; all must lie outside the structural fragment
        by_text = {}
        rows = []
        for vp in vecs:
            for line in open(vp):
                j = json.loads(line)
                rows.append(j)
                by_text.setdefault(bytes(j["in"]), []).append(j)
        amb = 0
        for t, js in by_text.items():
            means = {json.dumps(j["exp"], sort_keys=True) for j in js}
            if len(means) > 1:
                amb += 1
                if sum(1 for j in js if j["frag"]) > 1 and len({json.dumps(j["exp"], sort_keys=True) for j in js if j["frag"]}) > 1:
                    raise Broken("two inputs of the injective fragment have the same encoding: %r" % t)
        inv = os.path.join(wd, "frag.ndjson")
        nfrag = 0
        with open(inv, "w") as f:
            for j in rows:
                if j["frag"]:
                    nfrag += 1
                    f.write(json.dumps({"in": j["in"], "exp": j["exp"]}) + "\n")
        nvec, bad = fnlib.fn_check(bins["fn"], "depfile", inv, wd)
        for b in bad:
            judge(b, None)
        write_evidence(pid, tier, "model_checking", {
            "states": sum(m["distinct"] for m in mcs), "transitions": sum(m["states"] for m in mcs),
            "traces_validated_against_impl": nvec,
            "samples": [{"text": fnlib.bytes_to_text(j["in"]), "outs": [fnlib.bytes_to_text(o) for o in j["exp"]["outs"]], "ins": [fnlib.bytes_to_text(o) for o in j["exp"]["ins"]]} for j in rows[5000:5003] + rows[-2:]],
            "evaluations": len(rows), "distinct_nontrivial": nfrag,
            "rule": "rule lists over names of <= 3 characters from {a, space, backslash, #, $, :, %%, 0x80} (one, two, three dependencies, hostile targets, two rules), "
                    "24-name lists over longer names, the rejection cases; 4 layouts x 2 compiler dialects; one TLC state each (Decode(Encode(x)) = x inside the injective fragment); "
                    "every text of the fragment is an implementation test of DepfileParser::Parse with the expected reading",
            "exhaustive": True, "texts": len(by_text), "colliding_texts_outside_fragment": amb, "known_finding_hits": {k: n for k, (w, n) in known_hits.items()},
        }, time.time() - t0, nviol, ["TLC", "Depfile.tla: Encode as the dialect GCC/Clang write, Decode as its documented reading"])
        return report(pid, found, known_hits)
    finally:
        shutil.rmtree(wd, ignore_errors=True)


@reg("C06")
def limits(pid, tier, replay):
    if replay:
        return engine.engine_replay(pid, replay)
    fams = _fams([dict(fam="pools", K=2, CH=1), dict(fam="jobs", K=2, CH=1), dict(fam="intr", K=2, CH=2), dict(fam="sched", K=4, CH=1)],
                 [dict(fam="pools", K=12, CH=1), dict(fam="jobs", K=12, CH=1), dict(fam="intr", K=10, CH=4), dict(fam="sched", K=40, CH=1), dict(fam="fail", K=9, CH=10)], tier)
    q = tier == "quick"
    # design stage: pool graphs, -j 1..3 or a jobserver pool of 0..3 tokens, -k 1/2/unlimited, every completion and failure order of
    # one invocation, exhaustively; invariants Limits (-j / tokens held, pool depths, at most once, never 'stuck', every token back at
    # exit) and NoIdle, liveness Termination under FairSpec
    design = dict(K=2 if q else 8, consts={"MaxInv": 1, "MaxEnv": 0, "MaxClock": 80, "Js": "{1, 2, 3}", "Ks": "{1, 2, 0}", "Crashes": "FALSE", "Toks": "{99, 0, 2}" if q else "{99, 0, 1, 2, 3}", "Prio": "TRUE"},
                  invariants=["Limits", "NoIdle"], properties=["Termination"], timeout=300 if q else 3000, fam="mcpools", workers=8)
    def teardown(s):
        """Real binary, jobserver, a build torn down while finished commands are not yet reaped: the dyndep file produced during
        the build is invalid, all running commands complete in one poll round."""
        if not s.get("ddbad") or "dd" in s["srcs"]:
            return None
        s["hist"] = [dict(s["hist"][0], tok=3, burst=True)]
        return s
    def interrupted_by_command(s):
        """Real binary, jobserver: a command ends with status 130, which ninja takes for a user interrupt."""
        h0 = s["hist"][0]
        if h0.get("tok", -1) < 1 or not h0.get("fail") or any(st.get("badrspdir") for st in s["stmts"]):
            return None
        for f in h0["fail"]:
            f["code"] = 130
        s["hist"] = [h0]
        return s
    def burst(s):
        """Real binary, -j limit: every running command completes while ninja is stopped, so it finds several finished commands in one
        poll round and must still count the ones it has not reaped yet."""
        h0 = s["hist"][0]
        if h0.get("j", 1) < 2 or len([st for st in s["stmts"] if not st["phony"]]) < 4:
            return None
        s["hist"] = [dict(h0, burst=True)]
        return s
    h2 = dict(fams=[dict(fam="ddvar", spec="Dyndep", K=0, CH=0, mut=teardown), dict(fam="jobs", K=2, CH=1, mut=interrupted_by_command),
                    dict(fam="sched", K=4, CH=1, mut=burst)],
              limit=90 if q else 400, maxruns=2)
    return engine.engine_check(pid, fams, tier, maxruns=24 if tier == "quick" else 400, design=design, impl=True, h2=h2)


@reg("C07")
def crashes(pid, tier, replay):
    if replay:
        return engine.engine_replay(pid, replay)
    fams = _fams([dict(fam="crash", K=2, CH=2), dict(fam="intr", K=3, CH=2)],
                 [dict(fam="crash", K=12, CH=6), dict(fam="intr", K=12, CH=6)], tier)

    def real_signals(s):
        # real processes: SIGINT/SIGTERM/SIGHUP to ninja at the w-th wait, commands that flush a partial result while
        # handling the signal (direct children), and SIGKILL of ninja with orphaned commands finishing or not
        n = sum(ord(c) for c in s["id"])
        for st in s["stmts"]:
            if not st["phony"]:
                st["trap"] = n % 2 == 0
        for k, step in enumerate(s["hist"]):
            if step.get("intr", -1) > 0:
                if n % 3 == 0:
                    step["kill"] = step.pop("intr")
                else:
                    step["signal"] = ["INT", "TERM", "HUP"][(n + k) % 3]
                step.pop("tok", None)
        return s
    h2 = dict(fams=[dict(fam="intr", K=2, CH=2, mut=real_signals)], limit=100 if tier == "quick" else 1200, maxruns=3)
    q = tier == "quick"
    # design stage: NinjaImplMC with the Crash action (ninja dies at any point of a build; running commands complete as orphans
    # or not; one command may have its build-log record but not yet its deps-log record), then further invocations:
    # invariants Recovers / NoStale (a later successful build leaves the needed closure as a clean build would)
    design = dict(K=1 if q else 3, consts={"MaxInv": 2 if q else 3, "MaxEnv": 0 if q else 1, "MaxClock": 60, "Js": "{1, 2}", "Ks": "{1}", "Crashes": "TRUE", "Toks": "{99}", "Prio": "FALSE"},
                  invariants=["Recovers", "NoStale", "Limits"], timeout=200 if q else 3000, ngraphs=6 if q else None, workers=12)
    return engine.engine_check(pid, fams, tier, maxruns=12 if tier == "quick" else 100, level="fault_enumeration", h2=h2, design=design)


@reg("C10")
def discovered(pid, tier, replay):
    if replay:
        return engine.engine_replay(pid, replay)
    fams = _fams([dict(fam="twin", K=6, CH=4), dict(fam="faildep", K=3, CH=1)], [dict(fam="twin", K=60, CH=16), dict(fam="faildep", K=20, CH=1)], tier)
    return engine.engine_check(pid, fams, tier, maxruns=8 if tier == "quick" else 64, props=["C10"])


@reg("C11")
def dyndep(pid, tier, replay):
    if replay:
        return engine.engine_replay(pid, replay)
    fams = _fams([dict(fam="dyn", K=1, CH=6), dict(fam="ddvar", spec="Dyndep", K=0, CH=0)], [dict(fam="dyn", K=1, CH=40), dict(fam="ddvar", spec="Dyndep", K=0, CH=0)], tier)
    return engine.engine_check(pid, fams, tier, maxruns=24 if tier == "quick" else 200, props=["C11"])


@reg("C17")
def cycles(pid, tier, replay):
    if replay:
        return engine.engine_replay(pid, replay)
    fams = _fams([dict(fam="cyc", K=6, CH=1), dict(fam="sched", K=3, CH=1), dict(fam="dyn", K=1, CH=2)],
                 [dict(fam="cyc", K=60, CH=1), dict(fam="sched", K=20, CH=1), dict(fam="dyn", K=1, CH=10), dict(fam="rand", K=40, CH=3)], tier)
    return engine.engine_check(pid, fams, tier, maxruns=8 if tier == "quick" else 32, props=["C17"], cyclemodel=True)


@reg("C19")
def dryrun(pid, tier, replay):
    if replay:
        return engine.engine_replay(pid, replay)
    fams = _fams([dict(fam="dry", K=4, CH=4)], [dict(fam="dry", K=40, CH=12)], tier)
    # the read-only tools exist in the real binary only: family `tools` runs there (H2)
    h2 = dict(fams=[dict(fam="tools", K=2, CH=2), dict(fam="toolslogs", K=1, CH=1, keep=True), dict(fam="toolstwo", K=2, CH=1, keep=True)] if tier == "quick" else [dict(fam="tools", K=12, CH=6), dict(fam="toolslogs", K=6, CH=1, keep=True), dict(fam="toolstwo", K=8, CH=1, keep=True)],
              limit=130 if tier == "quick" else 1500, maxruns=1)
    return engine.engine_check(pid, fams, tier, maxruns=8 if tier == "quick" else 32, props=["C19"], h2=h2, stream=True)


@reg("C18")
def clean(pid, tier, replay):
    if replay:
        return engine.engine_replay(pid, replay)
    fams = _fams([dict(fam="clean", K=3, CH=6)], [dict(fam="clean", K=30, CH=40)], tier)
    return engine.engine_check(pid, fams, tier, maxruns=2 if tier == "quick" else 4, props=["C18"], cleanmodel=True)


@reg("C20")
def status(pid, tier, replay):
    if replay:
        return engine.engine_replay(pid, replay)
    fams = _fams([dict(fam="pools", K=1, CH=1), dict(fam="fail", K=1, CH=2), dict(fam="restat", K=4, CH=3), dict(fam="dyn", K=1, CH=2), dict(fam="intr", K=1, CH=1)],
                 [dict(fam="pools", K=8, CH=1), dict(fam="fail", K=9, CH=10), dict(fam="restat", K=40, CH=4), dict(fam="dyn", K=1, CH=20), dict(fam="intr", K=6, CH=3)], tier)
    fams += _fams([dict(fam="status", K=2, CH=2)], [dict(fam="status", K=12, CH=6)], tier)

    def real_pipes(s):
        """The same scenarios on the real binary: output written in pieces to stdout and stderr through ninja's subprocess pipes
        (console statements are left to H1: their output bypasses ninja)."""
        if any(st.get("pool") == "console" for st in s["stmts"]):
            return None
        for step in s["hist"]:
            if step.get("printer"):
                if step["printer"] != "pipe":
                    return None
                step["printer"] = "h2"
        # every third scenario: the manifest is regenerated by a generator statement right before the build (one more ninja pass)
        real_pipes.n += 1
        if real_pipes.n % 3 == 0 and len(s["hist"]) == 1 and not s["hist"][0].get("fail"):
            k = len(s["stmts"]) + 1
            st0 = dict(s["stmts"][0])
            st0.update(id=k, outs=["build.ninja"], iouts=[], ex=["gs"], im=[], oo=[], val=[], hdrs=[], phony=False, restat=False, gen=True, rsp=False,
                       deps="", pool="", dd="", ddi=[], ddo=[], ddr=False, mkdd="", outp=[])
            s["stmts"].append(st0)
            s["srcs"] = list(s["srcs"]) + ["gs"]
            h = s["hist"][0]
            s["hist"] = [dict(h, printer=""), {"op": "touch", "f": "gs"}, {"op": "touch", "f": s["srcs"][0]}, h]
        elif real_pipes.n % 3 == 1:
            # every command that is running completes (all its output written, process gone) before ninja looks again
            for step in s["hist"]:
                if step.get("op") == "build" and step.get("j", 1) > 1:
                    step["burst"] = True
            # ... and every command has more to say than one read of the pipe takes
            for st in s["stmts"]:
                if not st["phony"]:
                    st["outp"] = ["mark", "nl", "mid", "nl", "mark", "nl"]
        return s
    real_pipes.n = 0
    h2 = dict(fams=[dict(fam="status", K=2 if tier == "quick" else 12, CH=2 if tier == "quick" else 6, mut=real_pipes)], limit=80 if tier == "quick" else 1200, maxruns=2)
    return engine.engine_check(pid, fams, tier, maxruns=16 if tier == "quick" else 100, props=["C20"], stream=True, h2=h2,
                               extra_cov={"stream_rule": "family status: every Status call of the real StatusPrinter/LinePrinter with the bytes it wrote to a captured stdout "
                                          "(file and pseudo terminal), lexed into status / failed / output tokens and validated by spec/StatusStream.tla; the same family without console statements on the real "
                                          "binary, commands writing their output in pieces to stdout and stderr (up to 70 kB) through ninja's subprocess pipes, the whole stdout validated in one piece"})


@reg("C12")
def manifest(pid, tier, replay):
    import random, re
    t0 = time.time()
    bins = nbuild.build("dbg", ["fn"])
    wd = scratch(pid)
    try:
        found, nviol = [], 0

        def variants(files, rng):
            """Layout variants that do not change the meaning (chosen by seed)."""
            out = [files]
            v = {}
            mode = rng.randrange(4)
            for name, text in files.items():
                lines = text.split("\n")
                if mode == 0:      # CRLF
                    text2 = "\r\n".join(lines)
                elif mode == 1:    # comments between the lines, blank lines
                    l2 = []
                    for ln in lines:
                        if ln and not ln.startswith(" ") and rng.random() < 0.5:
                            l2.append("# a comment: with $ and = signs")
                        l2.append(ln)
                    text2 = "\n".join(l2)
                elif mode == 2:    # $-newline continuations in values and before inputs
                    l2 = []
                    for ln in lines:
                        if " = " in ln and rng.random() < 0.6:
                            ln = ln.replace(" = ", " = $\n      ", 1)
                        elif ln.startswith("build ") and ": " in ln and rng.random() < 0.6:
                            ln = ln.replace(": ", ": $\n    ", 1)
                        l2.append(ln)
                    text2 = "\n".join(l2)
                else:              # $x instead of ${x} where the next character cannot continue the name
                    text2 = re.sub(r"\$\{([a-z_]+)\}(?![A-Za-z0-9_\-])", r"$\1", text)
                v[name] = text2
            out.append(v)
            return out

        def run(vectors):
            nonlocal nviol
            vp = os.path.join(wd, "vec.ndjson")
            with open(vp, "w") as f:
                for files, exp, tag in vectors:
                    f.write(json.dumps({"files": files}) + "\n")
            op = os.path.join(wd, "out.ndjson")
            r = subprocess.run(["timeout", "900", bins["fn"], "manifest", vp, op], capture_output=True, text=True)
            if r.returncode != 0:
                raise Broken("fn manifest failed: " + r.stderr[-500:])
            outs = [json.loads(l) for l in open(op)]
            stats = {"accepted": 0, "rejected": 0}
            for (files, exp, tag), got in zip(vectors, outs):
                what = None
                if exp["ok"] != got["ok"]:
                    what = "manifest is %s by the documented rules (%s) but ninja %s it (%s)" % ("valid" if exp["ok"] else "invalid", exp["err"] or "-", "accepted" if got["ok"] else "rejected", got.get("err", "").strip()[:80])
                elif exp["ok"]:
                    stats["accepted"] += 1
                    for k in ("edges", "defaults", "pools", "builds"):
                        if k in exp and exp[k] != got.get(k):
                            d = ""
                            if k == "edges":
                                for a, b in zip(exp[k], got[k]):
                                    for kk in a:
                                        if a[kk] != b.get(kk):
                                            d = "%s of %s: documented %r, ninja %r" % (kk, a["outs"], a[kk], b.get(kk))
                                            break
                                    if d:
                                        break
                            if k == "builds":
                                d = "a plain `ninja` should build %r, ninja builds %r" % (exp[k], got.get(k))
                            what = "graph differs from the documented meaning (%s) %s" % (k, d)
                            break
                else:
                    stats["rejected"] += 1
                    if not re.match(r"^[A-Za-z0-9_.]+\.ninja:\d+: ", got.get("err", "")):
                        what = "rejected without a file:line diagnostic: %r" % got.get("err", "")[:80]
                if what:
                    nviol += 1
                    if len(found) < 25:
                        p = replay or save_replay(pid, "prog-%d" % nviol, {"property": pid, "files": files, "exp": exp, "layout": tag})
                        found.append((p, what))
            return stats

        if replay:
            rp = json.load(open(replay))
            if rp.get("lex"):
                vp = os.path.join(wd, "lexv.ndjson")
                open(vp, "w").write(json.dumps({"in": rp["in"], "value": rp["exp"]["value"], "paths": rp["exp"]["paths"]}) + "\n")
                n, bad = fnlib.fn_check(bins["fn"], "lex", vp, wd)
                for b in bad:
                    found.append((replay, "the lexer reads %r as %s, the documented syntax means %s" % (bytes(b["in"]), json.dumps(b["got"])[:200], json.dumps(b["exp"])[:200])))
                return report(pid, found, {})
            run([(rp["files"], rp["exp"], rp.get("layout", ""))])
            return report(pid, found, {})
        K = 150 if tier == "quick" else 1500
        SC = 2000 if tier == "quick" else 30000
        mc = fnlib.mc_run("Manifest.tla", "SPECIFICATION Spec\nINVARIANT Total\nCHECK_DEADLOCK FALSE\n", wd, workers=4, env={"K": max(2, K // 10), "SC": SC // 4}, xmx="8g", timeout=2400)
        if mc["error"]:
            raise Broken("Manifest model check failed: %s\n%s" % (mc["error"], mc["out"][-1500:]))
        vec = os.path.join(wd, "progs.ndjson")
        r = run_tlc("Manifest.tla", os.path.join(wd, "exp.cfg") if False else _write(os.path.join(wd, "exp.cfg"), "INIT StopInit\nNEXT Next\nCHECK_DEADLOCK FALSE\n"),
                    env={"K": K, "SC": SC, "OUT": vec}, extra=["-noGenerateSpecTE", "-seed", str(seed())], timeout=2400, xmx="12g")
        if r["error"] or not os.path.exists(vec):
            raise Broken("Manifest export failed: %s\n%s" % (r["error"], r["out"][-1500:]))
        rng = random.Random(seed())
        vectors = []
        SAFE = set("abcdefghijklmnopqrstuvwxyzABCDEFGHIJKLMNOPQRSTUVWXYZ0123456789_+-./")
        KNOWNQ = {"x:y", "a b", "ox:y", "$", "o$", "i$", "oa b", "ia b", "=", ">", ":", "|", "||", "|@"}

        def untabulated(e):
            """The reference tabulates shell quoting for its vocabulary only: programs whose $in / $out would hold another name that
            needs quoting are not compared."""
            return e["ok"] and any((set(p_) - SAFE) and p_ not in KNOWNQ for ed in e["edges"] for p_ in ed["outs"] + ed["ex"])
        nskip_ast = 0
        for line in open(vec):
            j = json.loads(line)
            if untabulated(j["exp"]):
                nskip_ast += 1
                continue
            vs = variants(j["files"], rng)
            vectors.append((vs[0], j["exp"], "plain"))
            vectors.append((vs[1], j["exp"], "variant"))
        # token level: every single-token mutation of valid token-level programs, judged by the reference parser of
        # ManifestTok.tla (one TLC state per mutant, invariant: the reference is total)
        tvec = os.path.join(wd, "tok.ndjson")
        tr = run_tlc("ManifestTok.tla", _write(os.path.join(wd, "tok.cfg"), "SPECIFICATION TSpec\nINVARIANT TTotal\nCHECK_DEADLOCK FALSE\n"),
                     env={"OUTT": tvec}, extra=["-noGenerateSpecTE"], workers=8, timeout=2400, xmx="8g")
        if tr["error"] or not os.path.exists(tvec):
            raise Broken("ManifestTok model check / export failed: %s\n%s" % (tr["error"], tr["out"][-1500:]))
        ntok = ntok_skipped = 0
        for line in open(tvec):
            j = json.loads(line)
            e = j["exp"]
            if untabulated(e):
                ntok_skipped += 1
                continue
            ntok += 1
            vectors.append((j["files"], e, "token-mutant"))
        # character level: every string over the lexer alphabet (spec/Lexer.tla) read in value and in path context
        lmc = fnlib.mc_run("Lexer.tla", "SPECIFICATION Spec\nCONSTANT MaxLen = %d\nINVARIANT Total\nCHECK_DEADLOCK FALSE\n" % (5 if tier == "quick" else 6), wd, workers=8)
        if lmc["error"]:
            raise Broken("Lexer model check failed: %s\n%s" % (lmc["error"], lmc["out"][-1500:]))
        lvec = fnlib.export_vectors("Lexer.tla", wd, {"EXPLEN": 5}, name="lex.ndjson")
        nlex, lbad = fnlib.fn_check(bins["fn"], "lex", lvec, wd)
        for b in lbad:
            nviol += 1
            if len(found) < 25:
                p = save_replay(pid, "lex-%d" % nviol, {"property": pid, "lex": True, "in": b["in"], "exp": b["exp"], "got": b["got"]})
                found.append((p, "the lexer reads %r as %s, the documented syntax means %s" % (bytes(b["in"]), json.dumps(b["got"])[:200], json.dumps(b["exp"])[:200])))
        stats = run(vectors)
        acc = [v for v in vectors if v[1]["ok"]]
        write_evidence(pid, tier, "model_checking", {
            "states": mc["distinct"], "transitions": mc["states"],
            "traces_validated_against_impl": len(vectors),
            "samples": [{"files": v[0], "expected": v[1]} for v in (acc[:1] + vectors[:1])],
            "evaluations": len(vectors), "distinct_nontrivial": stats["accepted"],
            "rule": "programs of the bounded grammar of Manifest.tla (slots filled from classes of statement forms: bindings with $-escapes and shadowing at every scope, "
                    "rules with every reserved binding, build statements with every input kind / implicit outputs / validations / build-level bindings / pool / dyndep, "
                    "defaults, pools, include and subninja of a second file, the legacy phony forms, and every constraint violation; a class built to be accepted; and the enumerated include/subninja scoping class: "
                    "two include-or-subninja statements over two files that bind variables, declare rules and build outputs, with rebinding between and after), TLC-sampled by seed; each program in a plain "
                    "and a layout variant (CRLF, comments, $-newline continuations, $x for ${x}); non-trivial = programs accepted by the reference (their whole graph is compared)",
            "accepted_programs": stats["accepted"], "rejected_programs": stats["rejected"], "exhaustive": False,
            "programs_skipped_for_untabulated_quoting": nskip_ast,
            "lexer": {"states": lmc["distinct"], "strings_replayed": nlex, "alphabet": "a $ { } space : | LF CR ^ .",
                      "rule": "spec/Lexer.tla: every string up to the bound read as a value and as a list of paths by the reference and by the real Lexer (ReadVarValue / ReadPath, then the kind of the next token)"},
            "token_mutants": {"states": tr["distinct"], "exported": ntok, "skipped_for_untabulated_quoting": ntok_skipped,
                              "rule": "spec/ManifestTok.tla: deletion, duplication, adjacent swap, substitution / insertion of structural and hostile tokens (':' '|' '||' '|@' '=' newline indent "
                                      "tab bad-escape keywords names) at every position and every truncation of 3 valid token-level programs; mutants where ninja's lexer would split a word are unspecified and not exported"},
        }, time.time() - t0, nviol, ["TLC", "Manifest.tla as the reading of the manual", "paths and values come from a fixed vocabulary (canonicalisation and quoting of those are tabulated in the spec)"])
        return report(pid, found, {})
    finally:
        shutil.rmtree(wd, ignore_errors=True)


def _write(path, text):
    open(path, "w").write(text)
    return path


@reg("C13")
def robustness(pid, tier, replay):
    t0 = time.time()
    bins = nbuild.build("asan", ["c13"])
    dbg = nbuild.build("dbg", ["logh"])
    wd = scratch(pid)
    env = dict(os.environ)
    env["ASAN_OPTIONS"] = "detect_leaks=0:exitcode=77:abort_on_error=0:detect_stack_use_after_return=0"
    env["UBSAN_OPTIONS"] = "halt_on_error=1:exitcode=77:print_stacktrace=1"
    env["C13_QUIET"] = "1"
    try:
        found, nviol = [], 0
        if replay:
            rp = json.load(open(replay))
            sp = os.path.join(wd, "seed.ndjson")
            open(sp, "w").write(json.dumps({"in": rp["in"]}) + "\n")
            # mutate mode with 0 edits is not available: enumerate the single input through a one-token alphabet
            ap = os.path.join(wd, "alpha.json")
            json.dump({rp["mode"]: {"max": 1, "tokens": [rp["in"]]}}, open(ap, "w"))
            rep = os.path.join(wd, "rep.ndjson")
            e2 = dict(env)
            e2.pop("C13_QUIET")
            r = subprocess.run([bins["c13"], "enum", rp["mode"], ap, "1", "1", rep], env=e2, capture_output=True, text=True)
            print(r.stderr[-3000:])
            for line in open(rep):
                found.append((replay, "ninja's %s reader %s on this input" % (rp["mode"], json.loads(line)["kind"])))
            return report(pid, found, {})
        alpha = os.path.join(wd, "alphabets.json")
        r = run_tlc("Fuzz.tla", _write(os.path.join(wd, "fz.cfg"), "INIT Init\nNEXT Next\n"), env={"OUT": alpha}, extra=["-noGenerateSpecTE"], timeout=300)
        if r["error"] or not os.path.exists(alpha):
            raise Broken("Fuzz.tla export failed: %s" % r["error"])
        spec = json.load(open(alpha))
        # tokens per input: the spec's bound for the thorough tier, one less for the quick tier
        total = processed = 0
        per = {}
        samples = []
        for mode, cfg in spec.items():
            maxlen = cfg["max"] if tier == "thorough" else cfg["max"] - 1
            rep = os.path.join(wd, "rep_%s.ndjson" % mode)
            r = subprocess.run(["timeout", "3000", bins["c13"], "enum", mode, alpha, str(maxlen), str(NCPU), rep], env=env, capture_output=True, text=True)
            if r.returncode != 0:
                raise Broken("c13 enum %s failed rc=%d %s" % (mode, r.returncode, r.stderr[-500:]))
            nums = {k: int(v) for k, v in (t.split("=") for t in r.stderr.split() if "=" in t and t.split("=")[1].isdigit())}
            per[mode] = {"tokens": len(cfg["tokens"]), "max_tokens": maxlen, "inputs": nums.get("inputs", 0), "error_exits": nums.get("error_exits", 0)}
            total += nums.get("inputs", 0)
            for line in open(rep):
                j = json.loads(line)
                nviol += 1
                if len(found) < 25:
                    p = save_replay(pid, "%s-%d" % (mode, j["index"]), {"property": pid, "mode": mode, "in": j["in"], "kind": j["kind"], "status": j["status"]})
                    found.append((p, "ninja's %s reader: %s (status %s) on input %r" % (mode, j["kind"], j["status"], bytes(j["in"])[:80])))
        # seeded mutations of longer valid inputs: manifests rendered by TLC from Manifest.tla, logs written by the real writers
        seeds = {}
        mv = os.path.join(wd, "progs.ndjson")
        r = run_tlc("Manifest.tla", _write(os.path.join(wd, "exp.cfg"), "INIT StopInit\nNEXT Next\nCHECK_DEADLOCK FALSE\n"),
                    env={"K": 20, "OUT": mv}, extra=["-noGenerateSpecTE", "-seed", str(seed())], timeout=600, xmx="6g")
        if not r["error"] and os.path.exists(mv):
            seeds["manifest"] = [{"in": list(json.loads(l)["files"]["build.ninja"].encode())} for l in open(mv)][:400]
        for kind, mode in (("blog", "buildlog"), ("dlog", "depslog")):
            gp = os.path.join(wd, "gen_%s.ndjson" % kind)
            tp = os.path.join(wd, "tr_%s.ndjson" % kind)
            subprocess.run([dbg["logh"], "gen", kind, str(seed()), "12", gp], check=True)
            subprocess.run([dbg["logh"], "run", kind, gp, tp], check=True, capture_output=True)
            ss = []
            for line in open(tp):
                j = json.loads(line)
                if j.get("e") == "LogOp" and j["bytes"]:
                    b = j["bytes"][16:] if mode == "depslog" else j["bytes"]
                    ss.append({"in": b})
            seeds[mode] = ss[-60:]
        nmut = 4000 if tier == "quick" else 60000
        for mode, ss in seeds.items():
            if not ss:
                continue
            sp = os.path.join(wd, "seeds_%s.ndjson" % mode)
            with open(sp, "w") as f:
                for s_ in ss:
                    f.write(json.dumps(s_) + "\n")
            rep = os.path.join(wd, "mrep_%s.ndjson" % mode)
            r = subprocess.run(["timeout", "3000", bins["c13"], "mutate", mode, sp, str(seed()), str(nmut), str(NCPU), rep], env=env, capture_output=True, text=True)
            if r.returncode != 0:
                raise Broken("c13 mutate %s failed rc=%d %s" % (mode, r.returncode, r.stderr[-500:]))
            per[mode]["mutations"] = nmut
            total += nmut
            for line in open(rep):
                j = json.loads(line)
                nviol += 1
                if len(found) < 25:
                    p = save_replay(pid, "%s-mut-%d" % (mode, j["index"]), {"property": pid, "mode": mode, "in": j["in"], "kind": j["kind"], "status": j["status"]})
                    found.append((p, "ninja's %s reader: %s (status %s) on a mutated input" % (mode, j["kind"], j["status"])))
        write_evidence(pid, tier, "exploration", {
            "evaluations": total, "distinct_nontrivial": total - sum(1 for _ in ()) - len(spec),
            "rule": "for each input format (the manifest format also with the values of three rule bindings enumerated and every binding of every statement expanded after loading) every concatenation of at most max_tokens tokens of the alphabet of spec/Fuzz.tla (all distinct, all but the empty input non-trivial), "
                    "plus seeded byte mutations of valid manifests (rendered by TLC from Manifest.tla) and of logs written by the real writers; run through the real parsers/loaders "
                    "built with ASan+UBSan (alignment check off), watchdog 20 s per input, Fatal() = reported error",
            "samples": [{"format": m, "alphabet_size": v["tokens"], "max_tokens": v["max_tokens"], "inputs": v["inputs"]} for m, v in per.items()],
            "formats": per, "exhaustive": True,
        }, time.time() - t0, nviol, ["clang ASan/UBSan as the observer of memory errors", "token alphabets of spec/Fuzz.tla", "misaligned loads in the deps-log loader are not counted (not a failure class of the property)"])
        return report(pid, found, {})
    finally:
        shutil.rmtree(wd, ignore_errors=True)
