"""Engine pipeline shared by the build-engine properties:
   TLC (spec/Families.tla) -> scenarios -> H1 (real classes, all completion orders)
   -> traces -> TLC (spec/RefTrace.tla: Ref monitors) -> violations / evidence."""
import hashlib, json, os, shutil, subprocess, sys, time
from collections import Counter, defaultdict

from common import *
import nbuild

FAMDIR = os.path.join(VERIF, ".build", "fam")


def export_family(fam, K, CH, sd, extra_env=None, spec="Families"):
    """Scenarios are exported by TLC from spec/Families.tla (or from another module with the same export convention:
    an ASSUME that serializes the scenario set to IOEnv.OUT, run under Families.cfg)."""
    os.makedirs(FAMDIR, exist_ok=True)
    h = hashlib.sha1(open(os.path.join(SPEC, spec + ".tla"), "rb").read()).hexdigest()[:12]
    out = os.path.join(FAMDIR, "%s-%s-K%s-CH%s-s%s.ndjson" % (h, fam, K, CH, sd))
    if os.path.exists(out) and os.path.getsize(out) > 0:
        return out
    # drop exports of older versions of the module
    for old in os.listdir(FAMDIR):
        if ("-%s-K" % fam) in old and not old.startswith(h):
            try:
                os.remove(os.path.join(FAMDIR, old))
            except OSError:
                pass
    tmp = out + ".tmp%d" % os.getpid()
    env = {"FAM": fam, "K": K, "CH": CH, "OUT": tmp}
    if extra_env:
        env.update(extra_env)
    r = run_tlc(spec + ".tla", "Families.cfg", env=env, extra=["-seed", str(sd)], timeout=2400, xmx="12g")
    if r["error"] or not os.path.exists(tmp):
        raise Broken("family export %s failed: %s\n%s" % (fam, r["error"], r["out"][-2000:]))
    os.replace(tmp, out)
    return out


def load_scenarios(fams, sd):
    """fams: list of dict(fam, K, CH, [maxruns]).  Returns list of scenario dicts with ids."""
    paths = parallel(lambda f: export_family(f["fam"], f.get("K", 3), f.get("CH", 3), sd, spec=f.get("spec", "Families")), fams)
    scen = []
    for f, p in zip(fams, paths):
        for i, line in enumerate(open(p)):
            line = line.strip()
            if not line:
                continue
            s = json.loads(line)
            s["id"] = "%s-%d" % (f["fam"], i)
            if "mut" in f:
                s = f["mut"](s)
                if s is None:
                    continue
            scen.append(s)
    return scen


def run_h1(h1, scen, wd, maxruns, sd, nshards=NCPU, flavour="dbg"):
    """Writes shards, runs H1 in parallel.  Returns list of (scenario file, trace file)."""
    nshards = max(1, min(nshards, len(scen)))
    files = []
    for k in range(nshards):
        sp = os.path.join(wd, "scen.%d.ndjson" % k)
        with open(sp, "w") as f:
            for s in scen[k::nshards]:
                f.write(json.dumps(s) + "\n")
        files.append((sp, os.path.join(wd, "trace.%d.ndjson" % k)))

    def go(pair):
        sp, tp = pair
        r = subprocess.run(["timeout", "1500", h1, sp, tp, "--maxruns", str(maxruns), "--seed", str(sd)],
                           capture_output=True, text=True)
        if r.returncode != 0:
            raise Broken("h1 failed rc=%d: %s" % (r.returncode, r.stderr[-2000:]))
        return r.stderr

    errs = parallel(go, files)
    execs = 0
    capped = 0
    for e in errs:
        for tok in e.split():
            if tok.startswith("executions="):
                execs += int(tok.split("=")[1])
            if tok.startswith("capped="):
                capped += int(tok.split("=")[1])
    return files, execs, capped


def _h2_worker(args):
    import h2
    scens, ninja, vcmd, maxruns, tp = args
    n = 0
    with open(tp, "w") as f:
        for sc in scens:
            keep = any(isinstance(h, dict) and h.get("printer") for h in sc.get("hist", []))   # the output-stream check needs ninja's stdout
            for evs in h2.explore(sc, ninja, vcmd, maxruns):
                n += 1
                for e in evs:
                    if e["e"] == "Exit" and not keep:
                        e = {k: v for k, v in e.items() if k != "stdout"}
                    f.write(json.dumps(e) + "\n")
    return n


def run_h2(scen, wd, maxruns, nproc=12):
    """Runs scenarios on the real ninja binary (harness H2).  Returns (files, executions)."""
    import multiprocessing
    bins = nbuild.build("dbg", ["ninja", "verif_cmd"])
    nproc = max(1, min(nproc, len(scen)))
    jobs = []
    files = []
    for k in range(nproc):
        sp = os.path.join(wd, "h2scen.%d.ndjson" % k)
        part = scen[k::nproc]
        with open(sp, "w") as f:
            for s in part:
                f.write(json.dumps(s) + "\n")
        tp = os.path.join(wd, "h2trace.%d.ndjson" % k)
        jobs.append((part, bins["ninja"], bins["verif_cmd"], maxruns, tp))
        files.append((sp, tp))
    with multiprocessing.Pool(nproc) as pool:
        counts = pool.map(_h2_worker, jobs)
    return files, sum(counts)


def design_mc(wd, sd, K, consts, invariants, timeout, ngraphs=None, workers=NCPU, properties=(), fam="mc"):
    """Design-level model checking of spec/NinjaImplMC.tla over graphs exported from Families.tla (family "mc").
    Returns dict(states, distinct, finished).  An invariant violation of the design model is reported as a broken
    check (exit 2): it is a candidate only, to be confirmed on the real code by the trace-validation part."""
    gp = export_family(fam, K, 1, sd)
    graphs = [l for l in open(gp) if l.strip()]
    if ngraphs:
        graphs = graphs[:ngraphs]
    gfile = os.path.join(wd, "graphs.ndjson")
    open(gfile, "w").write("".join(graphs))
    cfg = os.path.join(wd, "mc_impl.cfg")
    # temporal properties are checked under the fairness assumptions of FairSpec (commands end, the loop takes its steps)
    open(cfg, "w").write("SPECIFICATION %s\nCONSTANTS\n" % ("FairSpec" if properties else "Spec") + "".join("  %s = %s\n" % kv for kv in consts.items()) +
                         "".join("INVARIANT %s\n" % i for i in invariants) + "".join("PROPERTY %s\n" % i for i in properties) + "CHECK_DEADLOCK FALSE\n")
    r = run_tlc("NinjaImplMC.tla", cfg, env={"GRAPHS": gfile}, workers=workers, extra=["-noGenerateSpecTE"], timeout=timeout, xmx="20g")
    finished = "Model checking completed" in r["out"]
    if "is violated" in r["out"] or "Temporal properties were violated" in r["out"] or ("Error:" in r["out"] and not finished and r["rc"] != 124):
        raise Broken("design-level model NinjaImplMC: %s\n%s" % (r["error"], r["out"][-3000:]))
    import re
    m = re.findall(r"(\d[\d,]*) states generated.*?(\d[\d,]*) distinct states found", r["out"])
    st, di = (int(m[-1][0].replace(",", "")), int(m[-1][1].replace(",", ""))) if m else (0, 0)
    return {"states": st, "distinct": di, "finished": finished, "graphs": len(graphs), "constants": consts, "invariants": invariants, "temporal_properties": list(properties)}


def impl_conformance(files, wd):
    """Strict conformance of the scan/plan transcription (ImplTrace.tla) on the recorded executions: information only."""
    def go(pair):
        sp, tp = pair
        vp = tp + ".impl"
        r = run_tlc("ImplTrace.tla", "ImplTrace.cfg", env={"TRACE": tp, "VIOL": vp}, workers=1, timeout=3000)
        if (r["error"] or not os.path.exists(vp)) and r["rc"] in (-9, 137, 1, 134):
            time.sleep(15)
            r = run_tlc("ImplTrace.tla", "ImplTrace.cfg", env={"TRACE": tp, "VIOL": vp}, workers=1, timeout=3000)
        if r["error"] or not os.path.exists(vp):
            return {"checked": 0, "agree": 0, "error": r["error"]}
        d = json.loads(open(vp).read().split("\n")[0])
        return {"checked": d["stats"]["checked"], "agree": d["stats"]["agree"], "bad": d["bad"][:2]}
    res = parallel(go, files)

    def go_dyn(pair):
        """Step-by-step replay of every plain invocation on the invocation state of NinjaImplMC (ImplDynTrace.tla)."""
        sp, tp = pair
        vp = tp + ".dyn"
        r = run_tlc("ImplDynTrace.tla", "ImplDynTrace.cfg", env={"TRACE": tp, "VIOL": vp}, workers=1, timeout=3000, extra=["-noGenerateSpecTE"])
        if (r["error"] or not os.path.exists(vp)) and r["rc"] in (-9, 137, 1, 134):
            # a JVM killed from outside (memory pressure while other checks run beside this one): once more, a little later
            time.sleep(15)
            r = run_tlc("ImplDynTrace.tla", "ImplDynTrace.cfg", env={"TRACE": tp, "VIOL": vp}, workers=1, timeout=3000, extra=["-noGenerateSpecTE"])
        if r["error"] or not os.path.exists(vp):
            return {"checked": 0, "steps": 0, "agree": 0, "error": (r["error"] or "no result") + ": " + r["out"][-1200:]}
        d = json.loads(open(vp).read().split("\n")[0])
        return {"checked": d["stats"]["checked"], "steps": d["stats"]["steps"], "agree": d["stats"]["agree"], "bad": d["bad"][:2]}
    dyn = parallel(go_dyn, files)
    return {"checked": sum(r["checked"] for r in res), "accepted": sum(r["agree"] for r in res),
            "rejected": sum(r["checked"] - r["agree"] for r in res), "errors": [r["error"] for r in res if r.get("error")][:2],
            "first_rejections": [b for r in res for b in r.get("bad", [])][:2],
            "dynamic": {"invocations_replayed": sum(r["checked"] for r in dyn), "steps": sum(r["steps"] for r in dyn),
                        "steps_agreeing": sum(r["agree"] for r in dyn), "errors": [r["error"] for r in dyn if r.get("error")][:2],
                        "first_disagreements": [b for r in dyn for b in r.get("bad", [])][:2]}}


def validate(files, wd, spec="RefTrace"):
    def go(pair):
        sp, tp = pair
        vp = tp + ".viol"
        r = run_tlc(spec + ".tla", spec + ".cfg", env={"TRACE": tp, "VIOL": vp}, workers=1, timeout=3000)
        if r["error"] or not os.path.exists(vp):
            # a model failure is believed only if it repeats (a JVM killed from outside gets a moment first)
            time.sleep(15 if r["rc"] in (-9, 137) else 0)
            r = run_tlc(spec + ".tla", spec + ".cfg", env={"TRACE": tp, "VIOL": vp}, workers=1, timeout=3000)
            if r["error"] or not os.path.exists(vp):
                raise Broken("trace validation did not complete for %s: %s\n%s" % (tp, r["error"], r["out"][-3000:]))
        d = json.loads(open(vp).read().strip().split("\n")[0])
        return d, r
    return parallel(go, files)


def stream_validate(files, wd):
    """C20 output stream: converts each trace to the token trace of spec/StatusStream.tla and validates it.
    Returns per file (viol dict with `l` mapped back to the harness trace line, tlc result)."""
    import stream

    def go(pair):
        sp, tp = pair
        stp = tp + ".stream"
        n = stream.convert(tp, stp)
        if n == 0:
            return {"stats": {}, "viol": []}, {"states": 0, "distinct": 0}
        (d, r), = validate([(sp, stp)], wd, spec="StatusStream")
        src = [json.loads(line).get("src", 0) for line in open(stp)]
        for v in d["viol"]:
            v["l"] = src[v["l"] - 1] if 0 < v["l"] <= len(src) else 0
        return d, r
    return parallel(go, files)


def locate(trace_path, line_no):
    """Finds the execution containing 1-based line_no: returns (scenario id, run, choices, event)."""
    sc = None
    run = 0
    ev = None
    with open(trace_path) as f:
        for i, line in enumerate(f, 1):
            if line.startswith('{"e":"Reset"') or line.startswith('{"e": "Reset"'):
                if i > line_no:
                    break
                j = json.loads(line)
                sc, run = j["sc"], j["run"]
                choices = None
            if i == line_no:
                ev = json.loads(line)
            if i >= line_no and (line.startswith('{"e":"EndRun"') or line.startswith('{"e": "EndRun"')):
                return sc, run, json.loads(line)["choices"], ev
    return sc, run, [], ev


def summarize_event(ev):
    if ev is None:
        return ""
    keep = {k: v for k, v in ev.items() if k not in ("tree", "logs", "g", "read")}
    return json.dumps(keep)[:300]


def clean_model(wd, sd, h1files, quick):
    """C18, design level: spec/Clean.tla (src/clean.cc transcribed) model-checked against the reference sets of CleanRef.tla
    over graphs x subsets of existing files x log contents x scopes; then the same operator on every recorded Clean event
    of the real Cleaner (conformance).  A design counterexample is a candidate (broken check), disagreement is information."""
    gp = export_family("cleanmc", 1 if quick else 3, 1, sd)
    graphs = [l for l in open(gp) if l.strip()]
    graphs = graphs[:24] if quick else graphs
    gfile = os.path.join(wd, "cleangraphs.ndjson")
    open(gfile, "w").write("".join(graphs))
    cfg = os.path.join(wd, "mc_clean.cfg")
    open(cfg, "w").write("SPECIFICATION Spec\nINVARIANT Safe\nINVARIANT Complete\nINVARIANT Ends\nCHECK_DEADLOCK FALSE\n")
    r = run_tlc("Clean.tla", cfg, env={"GRAPHS": gfile}, workers=NCPU, extra=["-noGenerateSpecTE"], timeout=240 if quick else 3000, xmx="8g")
    finished = "Model checking completed" in r["out"]
    if "is violated" in r["out"] or ("Error:" in r["out"] and not finished and r["rc"] != 124):
        raise Broken("design-level model Clean.tla: %s\n%s" % (r["error"], r["out"][-3000:]))
    def go(pair):
        sp, tp = pair
        if '"e":"Clean"' not in open(tp).read():
            return {"checked": 0, "agree": 0, "bad": []}
        vp = tp + ".clean"
        rr = run_tlc("CleanTrace.tla", "CleanTrace.cfg", env={"TRACE": tp, "VIOL": vp, "GRAPHS": gfile}, workers=1, timeout=3000, extra=["-noGenerateSpecTE"])
        if rr["error"] or not os.path.exists(vp):
            return {"checked": 0, "agree": 0, "bad": [], "error": (rr["error"] or "no result") + ": " + rr["out"][-800:]}
        d = json.loads(open(vp).read().split("\n")[0])
        return {"checked": d["stats"]["checked"], "agree": d["stats"]["agree"], "bad": d["bad"][:2]}
    conf = parallel(go, h1files)
    errs = [c["error"] for c in conf if c.get("error")]
    if errs:
        raise Broken("Clean.tla conformance failed to run: %s" % errs[0][:1500])
    return {"states": r["states"], "distinct": r["distinct"], "finished": finished, "graphs": len(graphs), "invariants": ["Safe", "Complete", "Ends"],
            "conformance": {"clean_events_replayed": sum(c["checked"] for c in conf), "agreeing": sum(c["agree"] for c in conf),
                            "first_disagreements": [b for c in conf for b in c["bad"]][:2]}}


def cycle_model(wd, sd, h1files, quick):
    """C17, design level: spec/Cycle.tla (marks, stack and printed path of the dependency scan) model-checked against the
    graph-theoretic reference for every graph of the `cyc` family x every target; then the model's path against the path
    the real scan printed for the first invocation of every recorded execution (CycleTrace.tla)."""
    gp = export_family("cyc", 6 if quick else 60, 1, sd)
    seen, graphs = set(), []
    for line in open(gp):
        if not line.strip():
            continue
        j = json.loads(line)
        key = json.dumps(j["stmts"], sort_keys=True)
        if key not in seen:
            seen.add(key)
            graphs.append(json.dumps({"srcs": j["srcs"], "pools": j.get("pools", []), "stmts": j["stmts"]}) + "\n")
    graphs = graphs[:150] if quick else graphs
    gfile = os.path.join(wd, "cycgraphs.ndjson")
    open(gfile, "w").write("".join(graphs))
    cfg = os.path.join(wd, "mc_cycle.cfg")
    open(cfg, "w").write("SPECIFICATION Spec\nINVARIANT Exact\nINVARIANT PathOK\nCHECK_DEADLOCK FALSE\n")
    r = run_tlc("Cycle.tla", cfg, env={"GRAPHS": gfile}, workers=NCPU, extra=["-noGenerateSpecTE"], timeout=240 if quick else 3000, xmx="8g")
    finished = "Model checking completed" in r["out"]
    if "is violated" in r["out"] or ("Error:" in r["out"] and not finished and r["rc"] != 124):
        raise Broken("design-level model Cycle.tla: %s\n%s" % (r["error"], r["out"][-3000:]))
    def go(pair):
        sp, tp = pair
        vp = tp + ".cycle"
        rr = run_tlc("CycleTrace.tla", "CycleTrace.cfg", env={"TRACE": tp, "VIOL": vp, "GRAPHS": gfile}, workers=1, timeout=3000, extra=["-noGenerateSpecTE"])
        if rr["error"] or not os.path.exists(vp):
            return {"checked": 0, "agree": 0, "cyclic": 0, "bad": [], "error": (rr["error"] or "no result") + ": " + rr["out"][-800:]}
        d = json.loads(open(vp).read().split("\n")[0])
        return {"checked": d["stats"]["checked"], "agree": d["stats"]["agree"], "cyclic": d["stats"]["cyclic"], "bad": d["bad"][:2]}
    conf = parallel(go, h1files)
    errs = [c["error"] for c in conf if c.get("error")]
    if errs:
        raise Broken("Cycle.tla conformance failed to run: %s" % errs[0][:1500])
    return {"states": r["states"], "distinct": r["distinct"], "finished": finished, "graphs": len(graphs), "invariants": ["Exact", "PathOK"],
            "conformance": {"first_invocations_replayed": sum(c["checked"] for c in conf), "of_them_cyclic": sum(c["cyclic"] for c in conf),
                            "agreeing": sum(c["agree"] for c in conf), "first_disagreements": [b for c in conf for b in c["bad"]][:2]}}


def engine_check(pid, fams, tier_, maxruns, level_note="", props=None, extra_cov=None, level="model_checking", h2=None, design=None, impl=False, stream=False, cleanmodel=False, cyclemodel=False):
    """Runs the pipeline and reports for property pid.  Returns exit code."""
    t0 = time.time()
    sd = seed()
    props = props or [pid]
    bins = nbuild.build("dbg", ["h1"])
    scen = load_scenarios(fams, sd)
    if not scen:
        raise Broken("no scenarios")
    by_id = {s["id"]: s for s in scen}
    wd = scratch(pid)
    try:
        files, execs, capped = run_h1(bins["h1"], scen, wd, maxruns, sd)
        h1files = list(files)
        h2execs = 0
        if h2:
            # families marked keep=True always run in full; the others share what is left of the limit
            kept = load_scenarios([f for f in h2["fams"] if f.get("keep")], sd) if any(f.get("keep") for f in h2["fams"]) else []
            scen2 = load_scenarios([f for f in h2["fams"] if not f.get("keep")], sd) if any(not f.get("keep") for f in h2["fams"]) else []
            room = max(0, h2["limit"] - len(kept)) if h2.get("limit") else None
            if room is not None and len(scen2) > room:
                import random
                random.Random(sd).shuffle(scen2)
                scen2 = scen2[:room]
            # statements whose commands only the in-process model runner can play (content-dependent header sets, split outputs)
            scen2 = [s2 for s2 in kept + scen2 if not any(("split" in st) or ("hsel" in st) for st in s2["stmts"])]
            for s2 in scen2:
                s2["id"] = "h2:" + s2["id"]
                by_id[s2["id"]] = s2
            files2, h2execs = run_h2(scen2, wd, h2.get("maxruns", 4))
            files = files + files2
        results = validate(files, wd)
        sres = stream_validate(files, wd) if stream else None
        dres = design_mc(wd, sd, **design) if design else None
        ires = impl_conformance(h1files, wd) if impl else None
        # a counterexample of a design-level model is a candidate: it is reported as such (broken check) only if no real
        # execution of this run shows a violation - otherwise the violations of the real code are the result
        cres, deferred = None, None
        try:
            cres = clean_model(wd, sd, h1files, tier_ == "quick") if cleanmodel else None
            if cyclemodel:
                cres = cycle_model(wd, sd, h1files, tier_ == "quick")
        except Broken as e:
            deferred = e
        if ires and (ires["errors"] or ires["dynamic"]["errors"]):
            # the conformance replay itself did not run to the end: a broken check, not a disagreement
            raise Broken("Impl conformance (ImplTrace / ImplDynTrace) failed to run: %s" % str((ires["errors"] + ires["dynamic"]["errors"])[0])[:1500])
        known = {k["id"]: k for k in load_known_findings() if k.get("status") == "open" and pid in k.get("properties", [])}
        found, known_hits = [], {}
        stats = Counter()
        states = distinct = 0
        n_v = 0
        samples = []
        sstats = Counter()
        if sres:
            # the stream monitors' violations join those of the engine monitors of the same trace file
            for k, (d2, r2) in enumerate(sres):
                sstats.update(d2["stats"])
                results[k][0]["viol"].extend(d2["viol"])
                results[k][1]["states"] += r2["states"]
                results[k][1]["distinct"] += r2["distinct"]
        for (sp, tp), (d, r) in zip(files, results):
            stats.update(d["stats"])
            states += r["states"]
            distinct += r["distinct"]
            for v in d["viol"]:
                if v["p"] not in props and v["p"] != "ANY":
                    continue
                if v["kf"] and v["kf"] in known:
                    w, n = known_hits.get(v["kf"], (known[v["kf"]]["what"], 0))
                    known_hits[v["kf"]] = (w, n + 1)
                    continue
                scid, run, choices, ev = locate(tp, v["l"])
                n_v += 1
                if len(found) < 25:
                    path = save_replay(pid, "%s-run%d-l%d" % (scid, run, v["l"]),
                                       {"property": pid, "scenario": by_id.get(scid), "choices": choices,
                                        "violation": v, "event": ev})
                    found.append((path, "%s [%s] at event %s" % (v["what"], v.get("kf") or "-", summarize_event(ev))))
        if deferred is not None and not found:
            raise deferred
        # samples: first scenario with its first execution summarized
        for sp, tp in files[:1]:
            with open(tp) as f:
                evs = []
                for line in f:
                    j = json.loads(line)
                    if j["e"] == "Reset" and evs:
                        break
                    if j["e"] in ("Reset", "Env", "Invoke", "Start", "Done", "Exit"):
                        evs.append({k: v for k, v in j.items() if k not in ("tree", "logs", "g", "read", "pools")})
                samples.append({"scenario": json.loads(open(sp).readline()), "trace_events": evs[:40]})
        cov = {
            "states": states + (dres["distinct"] if dres else 0) + (cres["distinct"] if cres else 0), "transitions": states + (dres["states"] if dres else 0) + (cres["states"] if cres else 0),
            "design_model": dres if not cres else cres, "impl_conformance": ires if not cres else cres["conformance"], "output_stream": dict(sstats) if sres else None,
            "traces_validated_against_impl": stats["execs"],
            "samples": samples,
            "evaluations": stats["execs"],
            "distinct_nontrivial": stats["nontrivial"],
            "rule": "scenario = graph x history x config from spec/Families.tla (TLC export, seed-selected); every completion order "
                    "by DFS up to maxruns per scenario; counted non-trivial = invocations in which at least one command started",
            "scenarios": len(scen), "executions": execs, "real_binary_executions": h2execs, "executions_capped_scenarios": capped,
            "invocations": stats["invokes"], "command_starts": stats["starts"], "trace_stats": dict(stats),
            "known_finding_hits": {k: n for k, (w, n) in known_hits.items()},
            "families": [{k: v for k, v in f.items() if k != "mut"} for f in fams],
            "families_rule": "family `ddvar` = spec/Dyndep.tla: every deletion / duplication / truncation / substitution variant of a dyndep file at token level, "
                             "with the reference verdict valid / invalid; valid variants carry their meaning into the graph and get every engine monitor" if any(f.get("spec") == "Dyndep" for f in fams) else None,
            "exhaustive": False,
        }
        if extra_cov:
            cov.update(extra_cov)
        write_evidence(pid, tier_, level, cov, time.time() - t0, n_v,
                       ["TLC", "NinjaRef.tla reference semantics", "harness model disk/runner honour the DiskInterface/CommandRunner contracts",
                        "commands are deterministic functions of what they read; mtimes never go backwards"] + ([level_note] if level_note else []))
        return report(pid, found, known_hits)
    finally:
        shutil.rmtree(wd, ignore_errors=True)


def engine_replay(pid, path):
    rp = json.load(open(path))
    bins = nbuild.build("dbg", ["h1"])
    wd = scratch(pid + "-replay")
    try:
        sp = os.path.join(wd, "s.ndjson")
        tp = os.path.join(wd, "t.ndjson")
        open(sp, "w").write(json.dumps(rp["scenario"]) + "\n")
        if rp.get("h2") or str(rp["scenario"].get("id", "")).startswith("h2:"):
            # a scenario of the real-binary harness: same scenario, same choices
            import h2
            b2 = nbuild.build("dbg", ["ninja", "verif_cmd"])
            evs = h2.Execution(rp["scenario"], b2["ninja"], b2["verif_cmd"], h2.Chooser(rp["choices"]), 0).run()
            with open(tp, "w") as f:
                for e in evs:
                    f.write(json.dumps(e) + "\n")
        else:
            r = subprocess.run([bins["h1"], sp, tp, "--choices", ",".join(str(c) for c in rp["choices"]) or "0"], capture_output=True, text=True)
            if r.returncode != 0:
                raise Broken("h1 failed: " + r.stderr)
        (d, r2), = validate([(sp, tp)], wd)
        if any(isinstance(h, dict) and h.get("printer") for h in rp["scenario"].get("hist", [])):
            (d3, r3), = stream_validate([(sp, tp)], wd)
            d["viol"].extend(d3["viol"])
        known = {k["id"]: k for k in load_known_findings() if k.get("status") == "open" and pid in k.get("properties", [])}
        found, known_hits = [], {}
        for v in d["viol"]:
            if v["p"] != pid and v["p"] != "ANY":
                continue
            if v["kf"] and v["kf"] in known:
                w, n = known_hits.get(v["kf"], (known[v["kf"]]["what"], 0))
                known_hits[v["kf"]] = (w, n + 1)
                continue
            found.append((path, v["what"]))
        return report(pid, found, known_hits)
    finally:
        shutil.rmtree(wd, ignore_errors=True)
