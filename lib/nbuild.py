"""Build ninja's sources (from VERIF_REPO, default /repo, *current working tree*)
with -DNINJA_VERIF, plus the harness programs of /verif/harness, into
/verif/.build/<key>/<flavour>/.  The system ninja drives the compile (depfiles
track headers); a content-hash stamp forces recompilation of any source whose
bytes changed even if its mtime did not move forward."""
import hashlib, json, os, subprocess, sys

VERIF = os.path.dirname(os.path.dirname(os.path.abspath(__file__)))
REPO = os.environ.get("VERIF_REPO", "/repo")

LIB_SRCS = """build_log build clean clparser dyndep dyndep_parser debug_flags deps_log
disk_interface edit_distance elide_middle eval_env explanations graph graphviz jobserver
json line_printer manifest_parser metrics missing_deps parser real_command_runner state
status_printer string_piece_util util version jobserver-posix subprocess-posix
depfile_parser lexer""".split()

FLAVOURS = {
    "dbg": "-O1 -g",
    "asan": "-O1 -g -fsanitize=address,undefined -fno-sanitize=alignment -fno-sanitize-recover=undefined -fno-omit-frame-pointer",
}

HARNESS = {
    # name: (sources under /verif/harness, needs libninja, extra libs)
    "h1": (["h1.cc"], True, ""),
    "fn": (["fn.cc"], True, ""),
    "verif_cmd": (["verif_cmd.cc"], False, ""),
    "argv": (["argv.cc"], False, ""),
    "logh": (["logh.cc"], True, ""),
    "c13": (["c13.cc"], True, ""),
}


def build_dir(flavour):
    key = hashlib.sha1(os.path.realpath(REPO).encode()).hexdigest()[:10]
    return os.path.join(VERIF, ".build", key, flavour)


def _hash_file(p):
    h = hashlib.sha1()
    with open(p, "rb") as f:
        h.update(f.read())
    return h.hexdigest()


def build(flavour="dbg", targets=("h1",), quiet=True):
    """Returns dict target -> path of executable.  Raises RuntimeError with the
    compiler output when the tree does not compile."""
    bd = build_dir(flavour)
    os.makedirs(bd, exist_ok=True)
    # checks may run side by side: one builder per build directory at a time
    import fcntl
    with open(os.path.join(bd, ".lock"), "w") as lk:
        fcntl.flock(lk, fcntl.LOCK_EX)
        return _build_locked(bd, flavour, targets, quiet)


def _build_locked(bd, flavour, targets, quiet):
    src = os.path.join(REPO, "src")
    flags = FLAVOURS[flavour]
    cxx = "g++" if flavour == "dbg" else "clang++"
    lines = [
        "cxx = %s" % cxx,
        "cflags = -std=c++17 %s -DNINJA_VERIF -DUSE_PPOLL=1 -Wno-deprecated -iquote %s -iquote %s/harness" % (flags, src, VERIF),
        "ldflags = %s -pthread" % flags,
        "rule cc\n  command = $cxx $cflags -MMD -MF $out.d -c $in -o $out\n  depfile = $out.d\n  deps = gcc\n  description = CC $out",
        "rule link\n  command = $cxx $ldflags -o $out $in $libs\n  description = LINK $out",
    ]
    objs = []
    for s in LIB_SRCS:
        o = "obj/%s.o" % s
        lines.append("build %s: cc %s/%s.cc" % (o, src, s))
        objs.append(o)
    lines.append("build obj/ninja_main.o: cc %s/ninja.cc" % src)
    lines.append("build ninja: link obj/ninja_main.o %s" % " ".join(objs))
    for name, (srcs, needlib, libs) in HARNESS.items():
        hobjs = []
        for s in srcs:
            p = os.path.join(VERIF, "harness", s)
            if not os.path.exists(p):
                hobjs = None
                break
            o = "hobj/%s.o" % s
            lines.append("build %s: cc %s" % (o, p))
            hobjs.append(o)
        if hobjs is None:
            continue
        lines.append("build %s: link %s %s\n  libs = %s" % (name, " ".join(hobjs), " ".join(objs) if needlib else "", libs))
    text = "\n".join(lines) + "\n"
    bn = os.path.join(bd, "build.ninja")
    if not os.path.exists(bn) or open(bn).read() != text:
        open(bn, "w").write(text)
    # content-hash stamps
    stamp_p = os.path.join(bd, "hashes.json")
    try:
        old = json.load(open(stamp_p))
    except Exception:
        old = {}
    new = {}
    hdr_changed = False
    for f in sorted(os.listdir(src)):
        if f.endswith((".cc", ".h")):
            new[f] = _hash_file(os.path.join(src, f))
    for f, h in new.items():
        if old.get(f) not in (None, h):
            if f.endswith(".h"):
                hdr_changed = True
            else:
                o = os.path.join(bd, "obj", f[:-3] + ".o")
                if f == "ninja.cc":
                    o = os.path.join(bd, "obj", "ninja_main.o")
                if os.path.exists(o):
                    os.remove(o)
    if hdr_changed or set(old) - set(new):
        for d in ("obj", "hobj"):
            dd = os.path.join(bd, d)
            if os.path.isdir(dd):
                for o in os.listdir(dd):
                    if o.endswith(".o"):
                        os.remove(os.path.join(dd, o))
    json.dump(new, open(stamp_p, "w"))
    cmd = ["/usr/bin/ninja", "-C", bd, "-j16"] + list(targets)
    r = subprocess.run(cmd, capture_output=True, text=True)
    if r.returncode != 0:
        raise RuntimeError("build failed (%s):\n%s\n%s" % (flavour, r.stdout[-6000:], r.stderr[-2000:]))
    if not quiet:
        sys.stderr.write(r.stdout[-500:])
    return {t: os.path.join(bd, t) for t in targets}


if __name__ == "__main__":
    fl = sys.argv[1] if len(sys.argv) > 1 else "dbg"
    print(build(fl, sys.argv[2:] or ["ninja"], quiet=False))
