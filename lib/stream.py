"""C20: turns the Status-call / stdout-bytes events of harness traces into the token trace validated by spec/StatusStream.tla.

Lexing is exact matching against strings the run itself fixed (description or command line, outputs, exit code and captured
output of each statement); bytes that match nothing become `junk` tokens, which the specification rejects.  No state is guessed
here: which tokens are *allowed* at which call is decided by the specification."""
import json, re

CSI = re.compile(rb"\x1b\[[^A-Za-z]*[A-Za-z]")


def _b(s):
    return s.encode("latin-1", "replace") if isinstance(s, str) else bytes(s)


MSG = re.compile(rb"ninja: (build stopped|no work to do|error|warning|Entering directory)[^\n]*\n")


def fmt_regex(fmt):
    """NINJA_STATUS format -> (regex bytes, list of counter names in group order)."""
    rx, names = b"", []
    i = 0
    while i < len(fmt):
        c = fmt[i]
        if c == "%" and i + 1 < len(fmt):
            d = fmt[i + 1]
            i += 2
            if d == "%":
                rx += b"%"
            elif d in "strufp":
                rx += rb"( *\d+)%" if d == "p" else rb"(\d+)"
                names.append(d)
            else:
                rx += rb"[^\n\r]*?"      # time / rate placeholders: any text
            continue
        rx += re.escape(c.encode("latin-1"))
        i += 1
    return rx, names


def lex(stream, info, tty, verbose, msgs=False, fmt=""):
    """stream: bytes; info: {s: dict(cmd, desc, outs, code, out)}.  Returns list of (offset, token dict)."""
    head_rx, head_names = fmt_regex(fmt or "[%f/%t] ")
    outs = []     # (bytes, s)
    failed = []   # (bytes, s)
    status = []   # (regex, s)
    for s, d in info.items():
        text = d["cmd"] if (verbose or not d["desc"]) else d["desc"]
        if tty:
            status.append((re.compile(rb"\r" + head_rx + re.escape(_b(text)) + rb"\x1b\[K"), s))
        # the plain form is also what a terminal gets for a status line that was held back together with command output
        status.append((re.compile(head_rx + re.escape(_b(text)) + rb"\n"), s))
        if d.get("out"):
            o = _b(d["out"])
            if not tty:
                o = CSI.sub(b"", o)
            if o:
                outs.append((o, s))
        if d.get("code"):
            head = b"FAILED: [code=%d] " % d["code"]
            if tty:
                head = b"\x1b[31m" + head + b"\x1b[0m"
            failed.append((head + _b(d["outs"]) + b"\n" + _b(d["cmd"]) + b"\n", s))
    outs.sort(key=lambda x: -len(x[0]))
    toks = []
    p = 0
    n = len(stream)
    junk_start = None

    def flush_junk(upto):
        nonlocal junk_start
        if junk_start is not None:
            toks.append((junk_start, {"k": "junk", "s": 0, "f": 0, "t": 0, "cs": -1, "cr": -1, "cu": -1, "cp": -1}))
            junk_start = None

    while p < n:
        hit = None
        for o, s in outs:
            if stream.startswith(o, p):
                hit = (len(o), {"k": "out", "s": s, "f": 0, "t": 0, "cs": -1, "cr": -1, "cu": -1, "cp": -1})
                break
        if not hit:
            for h, s in failed:
                if stream.startswith(h, p):
                    hit = (len(h), {"k": "failed", "s": s, "f": 0, "t": 0, "cs": -1, "cr": -1, "cu": -1, "cp": -1})
                    break
        if not hit:
            for rx, s in status:
                m = rx.match(stream, p)
                if m:
                    cnt = {n: int(m.group(k + 1)) for k, n in enumerate(head_names)}
                    hit = (m.end() - p, {"k": "status", "s": s, "f": cnt.get("f", -1), "t": cnt.get("t", -1),
                                         "cs": cnt.get("s", -1), "cr": cnt.get("r", -1), "cu": cnt.get("u", -1), "cp": cnt.get("p", -1)})
                    break
        if not hit and stream[p:p + 1] == b"\n":
            hit = (1, {"k": "nl", "s": 0, "f": 0, "t": 0, "cs": -1, "cr": -1, "cu": -1, "cp": -1})
        if not hit and msgs and (p == 0 or stream[p - 1:p] == b"\n"):
            m = MSG.match(stream, p)
            if m:
                hit = (m.end() - p, {"k": "nl", "s": 0, "f": 0, "t": 0, "cs": -1, "cr": -1, "cu": -1, "cp": -1})   # ninja's own closing message: ignored like a newline
        if hit:
            flush_junk(p)
            toks.append((p, hit[1]))
            p += hit[0]
        else:
            if junk_start is None:
                junk_start = p
            p += 1
    flush_junk(n)
    return toks


def convert(trace_path, out_path):
    """Writes the token trace; returns number of invocations converted."""
    n_inv = 0
    with open(trace_path) as f, open(out_path, "w") as out:
        sc, run = "", 0
        restat_graph = False
        inv = None   # dict(mode, verbose, calls: [(kind, fields, src_line)], chunks: [(call_index, bytes)], info)

        def finish(ok, src):
            nonlocal inv, n_inv, restat_graph
            if inv is None:
                return
            stream = b"".join(c for _, c in inv["chunks"])
            # offset -> call index
            bounds = []
            off = 0
            for ci, c in inv["chunks"]:
                bounds.append((off, off + len(c), ci))
                off += len(c)
            toks = lex(stream, inv["info"], inv["mode"] == "tty", inv["verbose"], msgs=inv["mode"] == "h2", fmt=inv.get("fmt", ""))
            per_call = {}
            for o, t in toks:
                for a, b, ci in bounds:
                    if a <= o < b:
                        per_call.setdefault(ci, []).append(t)
                        break
            # tty here = "smart terminal" (status line overprinting): a terminal and not -v
            out.write(json.dumps({"e": "Reset", "sc": sc, "run": run, "tty": inv["mode"] == "tty" and not inv["verbose"], "batch": inv["mode"] == "h2", "src": inv["src"]}) + "\n")
            for ci, (kind, fields, src_line) in enumerate(inv["calls"]):
                obs = per_call.get(ci, [])
                if kind == "Other" and not obs:
                    continue
                ev = {"e": kind, "obs": obs, "src": src_line}
                ev.update(fields)
                out.write(json.dumps(ev) + "\n")
            # statements taken out of the plan (restat pruning) after the last status line was written: that line is a snapshot
            # with the larger total.  H1 sees the Status calls; for the real binary a restat statement in the graph is enough.
            # C19: a dry run lists every command it goes through (nothing runs, so there is no console to keep quiet for)
            listed = {t["s"] for _, t in toks if t.get("k") == "status"}
            went = {f["s"] for kind, f, _ in inv["calls"] if kind == "Started"}
            unlisted = sorted(went - listed) if inv.get("dry") else []
            out.write(json.dumps({"e": "End", "ok": ok, "dry": bool(inv.get("dry")), "unlisted": unlisted, "pruned": bool(inv.get("pruned") or (inv["mode"] == "h2" and restat_graph)), "src": src}) + "\n")
            n_inv += 1
            inv = None

        for ln, line in enumerate(f, 1):
            j = json.loads(line)
            e = j["e"]
            if e == "Reset":
                finish(False, ln)
                sc, run = j["sc"], j["run"]
                restat_graph = any(st.get("restat") or st.get("ddr") for st in j.get("g", {}).get("stmts", []))
            elif e == "Env" and "g" in j:
                restat_graph = any(st.get("restat") or st.get("ddr") for st in j["g"].get("stmts", []))
            elif e == "Printer":
                finish(False, ln)
                inv = {"mode": j["mode"], "verbose": j.get("verbose", False), "fmt": j.get("fmt", ""), "dry": j.get("dry", False), "calls": [], "chunks": [], "info": {}, "src": ln}
            elif inv is not None and e == "St":
                c = j["c"]
                if c == "started":
                    inv["info"].setdefault(j["s"], {}).update(cmd=j["cmd"], desc=j["desc"], outs=j["outs"])
                    inv["calls"].append(("Started", {"s": j["s"], "console": j["console"]}, ln))
                elif c == "finished":
                    inv["info"].setdefault(j["s"], {}).update(cmd=j["cmd"], desc=j["desc"], outs=j["outs"], code=j["code"], out=j["out"])
                    inv["calls"].append(("Finished", {"s": j["s"], "console": j["console"], "code": j["code"], "out": bool(j["out"])}, ln))
                    inv["pruned"] = False
                elif c == "remove":
                    inv["pruned"] = True
                    inv["calls"].append(("Other", {}, ln))
                elif c == "buildfinished":
                    inv["calls"].append(("BuildFinished", {}, ln))
                else:
                    inv["calls"].append(("Other", {}, ln))
            elif inv is not None and inv["mode"] == "h2" and e == "Start":
                inv["info"].setdefault(j["s"], {}).update(cmd=j["cmd"], desc=j["desc"], outs=j["outs"], console=j["console"])
                inv["calls"].append(("Started", {"s": j["s"], "console": j["console"]}, ln))
            elif inv is not None and inv["mode"] == "h2" and e == "Done":
                inv["info"].setdefault(j["s"], {}).update(code=j["code"], out=j.get("out", ""))
            elif inv is not None and inv["mode"] == "h2" and e == "H" and j["h"] == "Fin:Status" and j["s"] in inv["info"] and "code" in inv["info"][j["s"]]:
                d = inv["info"][j["s"]]
                inv["calls"].append(("Finished", {"s": j["s"], "console": d.get("console", False), "code": d["code"], "out": bool(d["out"])}, ln))
            elif inv is not None and e == "Out":
                if not inv["calls"]:
                    inv["calls"].append(("Other", {}, ln))
                inv["chunks"].append((len(inv["calls"]) - 1, bytes(j["b"])))
            elif inv is not None and e in ("Exit", "Died", "Abnormal"):
                if inv["mode"] == "h2":
                    # the real binary: the whole stdout is known only at the end; it is checked in one piece (batch)
                    inv["calls"].append(("BuildFinished", {}, ln))
                    inv["chunks"].append((len(inv["calls"]) - 1, j.get("stdout", "").encode("latin-1", "replace")))
                finish(e == "Exit" and j.get("code") == 0, ln)
        finish(False, 0)
    return n_inv
