"""H2: real-binary harness.  Runs scenario histories on the real `ninja` executable (built from the
current tree with -DNINJA_VERIF) in a real directory with real processes, pipes, signals and a real
jobserver FIFO.  Every build command is `verif_cmd`, which blocks until this driver lets it complete,
so the completion order is controlled deterministically; the driver acts only on events written by
ninja itself (hook events on the VERIF_TRACE FIFO) and on the commands' own start messages, never on
elapsed time.  Output: the same event vocabulary as H1 (validated by spec/RefTrace.tla), timestamps
dense-ranked per execution."""
import json, os, select, shutil, signal, subprocess, sys, tempfile, time


def term(k, v, ins):
    return {"k": k, "v": v, "ins": ins}


def txt(t):
    return term("txt", t, [])


def rsp_content(s):
    # later versions are shorter: a response file written over a leftover one must not keep the old tail
    v = s.get("rspver", 1)
    if v == 0:
        return ""      # a content that evaluates to nothing: the response file is written all the same, empty
    return "rsp-e%d-v%d" % (s["id"], v) + "x" * (5 * max(0, 3 - v))


def rsp_path(s):
    if s.get("rspnone"):
        return ""
    return ("nodir/" if s.get("badrspdir") else "") + s["outs"][0] + ".rsp"


def dd_text(sc, dd):
    if dd in sc.get("ddtext", {}):
        return sc["ddtext"][dd]
    t = "ninja_dyndep_version = 1\n"
    for s in sc["stmts"]:
        if s.get("dd") != dd:
            continue
        t += "build " + s["outs"][0]
        if s.get("ddo"):
            t += " | " + " ".join(s["ddo"])
        t += ": dyndep"
        if s.get("ddi"):
            t += " | " + " ".join(s["ddi"])
        t += "\n"
        if s.get("ddr"):
            t += "  restat = 1\n"
    return t


def norm_stmt(s):
    d = dict(id=0, outs=[], iouts=[], ex=[], im=[], oo=[], val=[], hdrs=[], phony=False, restat=False, gen=False, rsp=False,
             deps="", pool="", dd="", ddi=[], ddo=[], ddr=False, mkdd="", ver=1, rspver=1, badrspdir=False, trap=False)
    d.update(s)
    return d


# bytes a command line / description may contain (C19 compdb clause), written as latin-1 strings of raw bytes
DECOR = {
    "": "",
    "quotes": 'a"b\\c"d',
    "ctrl": "x\x01y\x1fz\x7f\tw",
    "utf8": "\u00e9\u6f22".encode("utf-8").decode("latin-1"),
    "bad8": "p\xffq\xfe",
}


def out_pieces(s):
    """What the command of statement s prints (scenario field outp), as a list of byte strings (latin-1 text), one per write."""
    r = []
    for k, p in enumerate(s.get("outp", []), 1):
        if p == "mark":
            r.append("<out %d.%d>" % (s["id"], k))
        elif p == "nl":
            r.append("\n")
        elif p == "nul":
            r.append("a\0b")
        elif p == "ansi":
            r.append("\x1b[31mred\x1b[0m")
        elif p == "cr":
            r.append("x\ry")
        elif p == "long":
            r.append("L" * 70000)      # more than a pipe buffer
        elif p == "mid":
            r.append("M" * 9000)       # more than one read of ninja (4 KiB), less than a pipe buffer: written in full while ninja is stopped
        elif p == "bracket":
            r.append("[9/9] looks like a status line")
        elif p == "failed":
            r.append("FAILED: not really")
    return r


def cmd_text(s, cmd, ctl):
    """The command line of statement s exactly as ninja evaluates it (without $out of trap commands)."""
    d = DECOR.get(s.get("decor", ""), "")
    return "%s%s %s e%d v%d%s" % ("exec " if s.get("trap") else "", cmd, ctl, s["id"], s["ver"], (" '" + d + "'") if d else "")


def render_manifest(sc, cmd, ctl):
    m = ""
    for p in sc.get("pools", []):
        m += "pool %s\n  depth = %d\n" % (p["name"], p["depth"])
    for s in sc["stmts"]:
        if s["phony"]:
            continue
        m += "rule r%d\n" % s["id"]
        # a command that handles the signal itself is ninja's direct child (exec), as a tool started without a wrapper
        # shell would be: ninja can only wait for the processes it started itself
        m += "  command = %s%s\n" % (cmd_text(s, cmd, ctl), " --trap 60 $out" if s.get("trap") else "")
        m += "  description = E%d%s\n" % (s["id"], (" " + DECOR[s["decor"]]) if s.get("decor") else "")
        if s["restat"]:
            m += "  restat = 1\n"
        if (s["gen"] and not s.get("genlvl")) or s.get("genlvl") == "cleared":
            m += "  generator = 1\n"
        if s["deps"] in ("depfile", "gcc"):
            m += "  depfile = %s.d\n" % s["outs"][0]
        # statements with an even number bind `deps` themselves (below), the others get it from their rule
        if s["deps"] == "gcc" and s["id"] % 2:
            m += "  deps = gcc\n"
        if s["deps"] == "msvc" and s["id"] % 2:
            m += "  deps = msvc\n"
        if s["rsp"]:
            m += "  rspfile = %s\n  rspfile_content = %s\n" % (rsp_path(s) or "$norsp", rsp_content(s) or "$nothing")
    for s in sc["stmts"]:
        m += "build " + " ".join(s["outs"])
        if s["iouts"]:
            m += " | " + " ".join(s["iouts"])
        m += ": " + ("phony" if s["phony"] else "r%d" % s["id"])
        if s["ex"]:
            m += " " + " ".join(s["ex"])
        if s["im"]:
            m += " | " + " ".join(s["im"])
        if s["oo"]:
            m += " || " + " ".join(s["oo"])
        if s["val"]:
            m += " |@ " + " ".join(s["val"])
        m += "\n"
        if s["pool"]:
            m += "  pool = %s\n" % s["pool"]
        if s["dd"]:
            m += "  dyndep = %s\n" % s["dd"]
        if s["deps"] in ("gcc", "msvc") and s["id"] % 2 == 0:
            m += "  deps = %s\n" % s["deps"]
        if s["gen"] and s.get("genlvl") == "build":
            m += "  generator = 1\n"
        if s.get("genlvl") == "cleared":
            m += "  generator =\n"
    return m


def blog_meaning(b):
    """.ninja_log bytes -> {output: (mtime, command hash)}, the last record of each output (None: no file)."""
    if b is None:
        return {}
    tab = {}
    for line in b.split(b"\n")[1:]:
        f = line.split(b"\t")
        if len(f) == 5:
            tab[f[3]] = (f[2], f[4])
    return tab


def dlog_meaning(b):
    """.ninja_deps bytes -> {output: (mtime, [dependency paths])}, the last record of each output; a torn tail is ignored."""
    if b is None or len(b) < 16:
        return {}
    paths, tab, pos = [], {}, 16
    while pos + 4 <= len(b):
        size = int.from_bytes(b[pos:pos + 4], "little")
        isdeps, size = bool(size >> 31), size & 0x7fffffff
        if pos + 4 + size > len(b):
            break
        rec = b[pos + 4:pos + 4 + size]
        if isdeps:
            w = [int.from_bytes(rec[i:i + 4], "little") for i in range(0, len(rec) - 3, 4)]
            if len(w) >= 3 and all(x < len(paths) for x in [w[0]] + w[3:]):
                tab[paths[w[0]]] = (w[1] | (w[2] << 32), [paths[x] for x in w[3:]])
        else:
            paths.append(rec[:-4].rstrip(b"\0"))
        pos += 4 + size
    return tab


def logs_meaning(triple):
    blog, dlog, lock = triple
    return (blog_meaning(blog), dlog_meaning(dlog), lock)


def inflate_logs(blog, dlog):
    """Pads both logs with copies of their own records, in order, until the next open recompacts them (build log: more
    than 100 records and 3 per output; deps log: more than 1000 deps records and 3 per output).  The meaning of the logs
    (last record of every output) does not change."""
    try:
        lines = open(blog, "rb").read().split(b"\n")
        head, recs = lines[0], [l for l in lines[1:] if l]
        if recs:
            n = 0
            with open(blog, "ab") as f:
                while n * len(recs) + len(recs) <= max(100, 3 * len(recs)) + len(recs):
                    f.write(b"\n".join(recs) + b"\n")
                    n += 1
    except FileNotFoundError:
        pass
    try:
        b = open(dlog, "rb").read()
        pos = 16
        recs = []
        while pos + 4 <= len(b):
            size = int.from_bytes(b[pos:pos + 4], "little")
            isdeps = bool(size >> 31)
            size &= 0x7fffffff
            if pos + 4 + size > len(b):
                break
            if isdeps:
                recs.append(b[pos:pos + 4 + size])
            pos += 4 + size
        if recs and pos == len(b):
            n = 0
            with open(dlog, "ab") as f:
                while (n + 1) * len(recs) <= max(1000, 3 * len(recs)) + len(recs):
                    f.write(b"".join(recs))
                    n += 1
    except FileNotFoundError:
        pass


def graph_json(sc):
    out = []
    for s in sc["stmts"]:
        g = dict(s)
        g["vstr"] = ("gen" if s["gen"] else "v%d" % s["ver"]) + ("|" + rsp_content(s) if s["rsp"] else "")
        g["en"] = "e%d" % s["id"]
        g["rsppath"] = rsp_path(s) if s["rsp"] else ""
        g["rsptxt"] = rsp_content(s) if s["rsp"] else ""
        g["ddtxt"] = dd_text(sc, s["mkdd"]) if s["mkdd"] else ""
        out.append(g)
    return {"srcs": sc["srcs"], "pools": sc.get("pools", []), "stmts": out}


def msg_class(out, code):
    def has(x):
        return x in out
    if has("dependency cycle"):
        return "cycle"
    if has("missing and no known rule to make it"):
        return "missing"
    if has("interrupted by user"):
        return "interrupted"
    if has("stuck"):
        return "stuck"
    if has("subcommand failed") or has("subcommands failed"):
        return "failed"
    if has("cannot make progress due to previous errors"):
        return "noprogress"
    if has("no work to do"):
        return "nowork"
    if code == 0:
        return "ok"
    if has("dyndep") or has("loading '"):
        return "dyndep"
    return "other"


class Chooser:
    def __init__(self, prefix, seed=1):
        self.prefix = list(prefix)
        self.taken = []
        self.arity = []

    def choose(self, n):
        pos = len(self.taken)
        c = self.prefix[pos] if pos < len(self.prefix) else 0
        c = min(c, n - 1)
        self.taken.append(c)
        self.arity.append(n)
        return c


class Execution:
    """One execution of a scenario history in a fresh directory."""

    def __init__(self, sc, ninja, vcmd, chooser, run_no, keep_output=False):
        self.sc = json.loads(json.dumps(sc))
        self.sc["stmts"] = [norm_stmt(s) for s in self.sc["stmts"]]
        self.ninja, self.vcmd, self.ch, self.run_no = ninja, vcmd, chooser, run_no
        base = "/dev/shm" if os.path.isdir("/dev/shm") else None
        self.root = tempfile.mkdtemp(prefix="h2-", dir=base)
        self.d = os.path.join(self.root, "d")
        self.ctl = os.path.join(self.root, "c")
        os.mkdir(self.d)
        os.mkdir(self.ctl)
        self.events = []
        self.stamps = set()
        self.by_out = {}
        self.outputs = []     # (invocation index, stdout bytes)
        self.srcver = {}
        self.nfile = 0
        self.announced = set()
        self.pids = {}
        self.printed = {}
        self._index()

    def _index(self):
        self.by_out = {}
        for s in self.sc["stmts"]:
            for o in s["outs"] + s["iouts"] + s["ddo"]:
                self.by_out[o] = s
        self.by_id = {s["id"]: s for s in self.sc["stmts"]}

    # -- files ---------------------------------------------------------------
    def p(self, f):
        return os.path.join(self.d, f)

    def put(self, f, content):
        path = self.p(f)
        os.makedirs(os.path.dirname(path), exist_ok=True)
        tmp = path + ".tmp~"
        with open(tmp, "wb") as fh:
            fh.write((content if isinstance(content, str) else json.dumps(content)).encode("latin-1", "replace"))
        os.replace(tmp, path)
        time.sleep(0.002)

    def content_of(self, f):
        try:
            raw = open(self.p(f), "rb").read().decode("latin-1")
        except (FileNotFoundError, IsADirectoryError, NotADirectoryError):
            return None
        if f == "build.ninja":
            return txt("manifest")
        if raw.startswith('{"k"'):
            try:
                return json.loads(raw)
            except ValueError:
                pass
        return txt(raw)

    def tree(self):
        t = []
        for dp, dn, fn in os.walk(self.d):
            for f in fn:
                full = os.path.join(dp, f)
                rel = os.path.relpath(full, self.d)
                if rel in (".ninja_log", ".ninja_deps") or rel.endswith(".tmp~"):
                    continue
                try:
                    st = os.stat(full)
                except FileNotFoundError:
                    continue
                self.stamps.add(st.st_mtime_ns)
                t.append({"n": rel, "m": ("ns", st.st_mtime_ns), "c": self.content_of(rel)})
        t.sort(key=lambda e: e["n"])
        return t

    def now_stamp(self):
        """A stamp in the clock domain of file mtimes: touch a marker and read it back."""
        m = os.path.join(self.ctl, "mark")
        with open(m, "w") as fh:
            fh.write("x")
        ns = os.stat(m).st_mtime_ns
        self.stamps.add(ns)
        return ("ns", ns)

    def write_manifest(self):
        self.put("build.ninja", render_manifest(self.sc, self.vcmd, self.ctl))

    # -- history -------------------------------------------------------------
    def run(self):
        try:
            self._run()
        finally:
            shutil.rmtree(self.root, ignore_errors=True)
        return self.finish()

    def _run(self):
        sc = self.sc
        for s in sc["srcs"]:
            self.srcver[s] = 1
            self.put(s, term(s, "1", []))
        for s in sc["stmts"]:
            if s["dd"] and s["dd"] in sc["srcs"]:
                self.put(s["dd"], dd_text(sc, s["dd"]))
        self.write_manifest()
        self.events.append({"e": "Reset", "sc": sc.get("id", ""), "run": self.run_no, "tw": 0, "twk": "", "ddbad": sc.get("ddbad", []), "g": graph_json(sc), "tree": self.tree()})
        for step in sc["hist"]:
            if step["op"] == "build":
                self.invoke(step)
                continue
            op = step["op"]
            f = step.get("f", "")
            if op == "tools":
                self.tools(step)
                continue
            if op == "edit":
                if any(s["dd"] == f for s in sc["stmts"]):
                    self.put(f, dd_text(sc, f))
                else:
                    self.srcver[f] = self.srcver.get(f, 1) + 1
                    self.put(f, term(f, str(self.srcver[f]), []))
            elif op == "touch":
                c = open(self.p(f)).read()
                self.put(f, c)
            elif op == "del":
                try:
                    os.remove(self.p(f))
                except FileNotFoundError:
                    pass
            elif op == "ver":
                self.by_id[step["s"]]["ver"] += 1
                self.write_manifest()
            elif op == "rspver":
                self.by_id[step["s"]]["rspver"] = step["to"] if "to" in step else self.by_id[step["s"]]["rspver"] + 1
                self.write_manifest()
            elif op == "verback":
                self.by_id[step["s"]]["ver"] = 1
                self.by_id[step["s"]]["rspver"] = 1
                self.write_manifest()
            elif op == "droplog":
                try:
                    os.remove(self.p(".ninja_log"))
                except FileNotFoundError:
                    pass
            elif op == "dropdeps":
                try:
                    os.remove(self.p(".ninja_deps"))
                except FileNotFoundError:
                    pass
            elif op == "inflate":
                inflate_logs(self.p(".ninja_log"), self.p(".ninja_deps"))
            self.events.append({"e": "Env", "op": op, "f": f, "s": step.get("s", 0), "g": graph_json(sc), "tree": self.tree()})
        self.events.append({"e": "EndRun", "choices": list(self.ch.taken)})

    # -- read-only tools (C19) ----------------------------------------------------
    def _log_bytes(self):
        r = []
        for n in (".ninja_log", ".ninja_deps", ".ninja_lock"):
            try:
                r.append(open(self.p(n), "rb").read())
            except FileNotFoundError:
                r.append(None)
        return r

    def tools(self, step):
        """Runs every read-only tool of the real binary on the current tree; one Tool event per run."""
        sc = self.sc
        targets = list(step.get("targets", []))
        first = targets[:1]
        rules = ["r%d" % s["id"] for s in sc["stmts"] if not s["phony"]][:1]
        runs = [("commands", targets), ("commands1", first), ("inputs", targets), ("multi-inputs", targets), ("query", first),
                ("targets-all", []), ("targets-depth", []), ("targets-depth0", []), ("targets-rule", rules), ("rules", []), ("rules-d", []), ("graph", targets),
                ("compdb", []), ("compdb-rule", rules), ("compdb-targets", targets), ("deps", []), ("deps-target", first), ("missingdeps", [])]
        argv = {"commands": ["-t", "commands"], "commands1": ["-t", "commands", "-s"], "inputs": ["-t", "inputs"], "multi-inputs": ["-t", "multi-inputs"],
                "query": ["-t", "query"], "targets-all": ["-t", "targets", "all"], "targets-depth": ["-t", "targets", "depth", "2"], "targets-depth0": ["-t", "targets", "depth", "0"],
                "targets-rule": ["-t", "targets", "rule"], "rules": ["-t", "rules"], "rules-d": ["-t", "rules", "-d"], "graph": ["-t", "graph"],
                "compdb": ["-t", "compdb"], "compdb-rule": ["-t", "compdb"], "compdb-targets": ["-t", "compdb-targets"], "deps": ["-t", "deps"],
                "deps-target": ["-t", "deps"], "missingdeps": ["-t", "missingdeps"]}
        req = os.path.join(self.ctl, "req")
        if os.path.exists(req):
            os.remove(req)
        os.mkfifo(req)
        req_fd = os.open(req, os.O_RDWR | os.O_NONBLOCK)
        by_cmd = {cmd_text(s, self.vcmd, self.ctl): s["id"] for s in sc["stmts"] if not s["phony"]}
        env = dict(os.environ)
        env.pop("VERIF_TRACE", None)
        env.pop("NINJA_STATUS", None)
        try:
            for name, args in runs:
                if name in ("commands1", "query", "deps-target") and not args:
                    continue
                if name in ("targets-rule", "compdb-rule") and not args:
                    continue
                pre = self.tree()
                lpre = self._log_bytes()
                try:
                    if name == "targets-depth0":
                        # unlimited depth: only termination is of interest (a tool that does not end would print without end)
                        pr = subprocess.run([self.ninja] + argv[name] + args, cwd=self.d, env=env, stdin=subprocess.DEVNULL, stdout=subprocess.DEVNULL, stderr=subprocess.DEVNULL, timeout=10)
                        rc, out = pr.returncode, b""
                    else:
                        pr = subprocess.run([self.ninja] + argv[name] + args, cwd=self.d, env=env, stdin=subprocess.DEVNULL, capture_output=True, timeout=60)
                        rc, out = pr.returncode, pr.stdout
                except subprocess.TimeoutExpired as e:
                    rc, out = -1, (e.stdout or b"")
                started = False
                try:
                    started = bool(os.read(req_fd, 4096))
                except BlockingIOError:
                    pass
                if started:
                    subprocess.run(["pkill", "-KILL", "-f", self.ctl], capture_output=True)
                post = self.tree()
                cmds, js = [], "na"
                if name in ("commands", "commands1"):
                    for line in out.decode("latin-1").split("\n"):
                        if line:
                            cmds.append(by_cmd.get(line, 0))
                if name.startswith("compdb"):
                    try:
                        doc = json.loads(out)     # bytes: must be valid UTF-8 JSON text
                        js = "ok" if isinstance(doc, list) else "bad"
                    except ValueError:
                        js = "bad"
                        # not UTF-8, but well-formed JSON when every byte is taken as one character: the only fault is
                        # that bytes >= 0x80 of a command line were copied through
                        try:
                            out.decode("utf-8")
                        except UnicodeDecodeError:
                            try:
                                if isinstance(json.loads(out.decode("latin-1")), list):
                                    js = "badutf8"
                            except ValueError:
                                pass
                extra = {}
                if name == "inputs":
                    ins = [l for l in out.decode("latin-1").split("\n") if l]
                    extra = {"ins": ins, "sorted": ins == sorted(ins)}
                if name == "multi-inputs":
                    extra = {"pairs": [l.replace("\t", ">") for l in out.decode("latin-1").split("\n") if l]}
                if name == "rules":
                    extra = {"rules": [l for l in out.decode("latin-1").split("\n") if l]}
                if name == "targets-rule":
                    ls = [l for l in out.decode("latin-1").split("\n") if l]
                    extra = {"rule": args[0], "routs": ls, "sorted": ls == sorted(ls)}
                if name == "query":
                    q = {"rule": "", "ins": [], "vals": [], "outs": [], "vfor": [], "head": ""}
                    sec = ""
                    for l in out.decode("latin-1").split("\n"):
                        if not l:
                            continue
                        if not l.startswith(" "):
                            q["head"] = l
                        elif l.startswith("  input: "):
                            q["rule"] = l[len("  input: "):]; sec = "ins"
                        elif l == "  validations:":
                            sec = "vals"
                        elif l == "  outputs:":
                            sec = "outs"
                        elif l == "  validation for:":
                            sec = "vfor"
                        elif l.startswith("    ") and sec:
                            x = l[4:]
                            if sec == "ins":
                                x = ("i:" + x[2:]) if x.startswith("| ") else ("o:" + x[3:]) if x.startswith("|| ") else ("e:" + x)
                            q[sec].append(x)
                    extra = {"q": q}
                if name == "targets-all":
                    extra = {"tall": [l for l in out.decode("latin-1").split("\n") if l]}
                self.events.append({"e": "Tool", "tool": name, "targets": args if name in ("commands", "commands1", "inputs", "multi-inputs", "query") else [], "rc": rc,
                                    "started": started, "pre": pre, "tree": post, "logsame": logs_meaning(lpre) == logs_meaning(self._log_bytes()),   # the meaning of both logs (and no lock file left)
                                    "cmds": cmds, "json": js, "g": graph_json(sc), **extra})
        finally:
            os.close(req_fd)

    def fifo_count(self, path):
        try:
            fd = os.open(path, os.O_RDONLY | os.O_NONBLOCK)
        except OSError:
            return -1
        try:
            data = os.read(fd, 256)
        except BlockingIOError:
            data = b""
        if data:
            w = os.open(path, os.O_WRONLY | os.O_NONBLOCK)
            os.write(w, data)
            os.close(w)
        os.close(fd)
        return len(data)

    def invoke(self, step):
        sc = self.sc
        tok = step.get("tok", -1)
        j, k = step.get("j", 1), step.get("k", 1)
        fails = {f["s"]: f for f in step.get("fail", [])}
        intr = step.get("intr", -1)
        sig = step.get("signal", "INT")
        self.events.append({"e": "Invoke", "targets": step["targets"], "j": j, "k": k, "dry": bool(step.get("dry")), "tok": tok,
                            "fail": step.get("fail", []), "intr": intr, "editrun": bool(step.get("editrun")), "tree": self.tree()})
        self.events.append({"e": "Loaded", "blog": [], "dlog": [], "warn": ""})
        if step.get("printer"):
            self.events.append({"e": "Printer", "mode": "h2", "verbose": bool(step.get("verbose")), "dry": bool(step.get("dry"))})
        req = os.path.join(self.ctl, "req")
        trace = os.path.join(self.ctl, "trace")
        for pth in (req, trace):
            if os.path.exists(pth):
                os.remove(pth)
            os.mkfifo(pth)
        for s_ in sc["stmts"]:
            g_ = os.path.join(self.ctl, "go.e%d" % s_["id"])
            if os.path.exists(g_):
                os.remove(g_)
            os.mkfifo(g_)
        req_fd = os.open(req, os.O_RDWR | os.O_NONBLOCK)
        trace_fd = os.open(trace, os.O_RDWR | os.O_NONBLOCK)
        env = dict(os.environ)
        env["VERIF_TRACE"] = trace
        env.pop("MAKEFLAGS", None)
        env["TERM"] = "dumb"
        jf = os.path.join(self.ctl, "jobs")
        keep = None
        args = [self.ninja, "-C", self.d]
        if tok >= 0:
            if os.path.exists(jf):
                os.remove(jf)
            os.mkfifo(jf)
            keep = (os.open(jf, os.O_RDONLY | os.O_NONBLOCK), os.open(jf, os.O_WRONLY | os.O_NONBLOCK))
            os.write(keep[1], b"+" * tok)
            env["MAKEFLAGS"] = " -j%d --jobserver-auth=fifo:%s" % (tok + 1, jf)
        else:
            args += ["-j%d" % j]
        args += ["-k%d" % k]
        if step.get("dry"):
            args.append("-n")
        if step.get("verbose"):
            args.append("-v")
        args += step["targets"]
        proc = subprocess.Popen(args, env=env, stdout=subprocess.PIPE, stderr=subprocess.STDOUT, stdin=subprocess.DEVNULL)
        os.set_blocking(proc.stdout.fileno(), False)
        out = b""
        running = {}      # stmt id -> dict(content, start)
        started_n = 0
        waits = 0
        interrupted = False
        pending_done = {}  # stmt id -> code (script sent, waiting for ninja to reap)
        rbuf = {req_fd: b"", trace_fd: b""}
        deadline = time.time() + 60
        abnormal = False
        died = False
        stdout_eof = False
        sent_signal = False
        self.announced = set()

        def run_ids():
            return list(running.keys())

        def send_script(sid):
            s = self.by_id[sid]
            info = running[sid]
            f = fails.get(sid)
            lines = []
            outs = s["outs"] + s["iouts"] + s["ddo"]
            stage = os.path.join(self.ctl, "stage")
            os.makedirs(stage, exist_ok=True)

            def stage_file(content):
                self.nfile += 1
                pth = os.path.join(stage, "f%d" % self.nfile)
                with open(pth, "wb") as fh:
                    fh.write((content if isinstance(content, str) else json.dumps(content)).encode("latin-1", "replace"))
                return pth
            code = f["code"] if f else 0
            wrote = []
            if not f:
                for o in outs:
                    c = dd_text(sc, o) if o == s["mkdd"] else info["content"]
                    if o == "build.ninja":
                        c = render_manifest(self.sc, self.vcmd, self.ctl)      # a generator statement regenerates the manifest
                    cur = self.content_of(o)
                    new = txt(c) if isinstance(c, str) else c
                    if (s["restat"] or s["ddr"]) and cur == new:
                        continue
                    lines.append("w %s %s" % (self.p(o), stage_file(c)))
                    wrote.append(o)
                if s["deps"] in ("depfile", "gcc"):
                    lines.append("w %s %s" % (self.p(s["outs"][0] + ".d"), stage_file(s["outs"][0] + ": " + " ".join(s["hdrs"]) + "\n")))
                    wrote.append(s["outs"][0] + ".d")
                if s["deps"] == "msvc":
                    lines.append("o " + stage_file("".join("Note: including file: %s\n" % h for h in s["hdrs"])))
            elif f.get("touch"):
                for o in outs:
                    lines.append("w %s %s" % (self.p(o), stage_file(term("garbage", "e%d" % sid, []))))
                    wrote.append(o)
                if s["deps"] in ("depfile", "gcc"):
                    lines.append("w %s %s" % (self.p(s["outs"][0] + ".d"), stage_file(s["outs"][0] + ": " + " ".join(s["hdrs"]) + "\n")))
                    wrote.append(s["outs"][0] + ".d")
            for piece in step.get("print", {}).get(str(sid), []):
                lines.append(("e " if piece.get("err") else "o ") + stage_file(piece["t"]))
                if piece.get("pause"):
                    lines.append("p %d" % piece["pause"])
            printed = "".join(piece["t"] for piece in step.get("print", {}).get(str(sid), []))
            if s["deps"] == "msvc" and not f:
                printed = "".join("Note: including file: %s\n" % h for h in s["hdrs"]) + printed
            if f:
                lines.append("e " + stage_file("command failed (e%d)\n" % sid))
                printed += "command failed (e%d)\n" % sid
            # the statement's own output: pieces written alternately to stdout and stderr, with pauses in between
            for k, piece in enumerate(out_pieces(s)):
                lines.append(("e " if k % 2 else "o ") + stage_file(piece))
                if k % 3 == 1:
                    lines.append("p 2")
                printed += piece
            info["printed"] = printed
            lines.append("x %d" % code)
            go = os.path.join(self.ctl, "go.e%d" % sid)
            fd = os.open(go, os.O_WRONLY)
            os.write(fd, ("\n".join(lines) + "\n").encode())
            os.close(fd)
            pending_done[sid] = (code, wrote)
            self.printed[sid] = printed

        def on_start(sid):
            nonlocal started_n
            s = self.by_id[sid]
            started_n += 1
            names = s["ex"] + s["im"] + s["ddi"] + s["hdrs"]
            ins = []
            read = []
            for n in names:
                c = self.content_of(n)
                ins.append(c if c is not None else term("missing", n, []))
                try:
                    m = ("ns", os.stat(self.p(n)).st_mtime_ns)
                    self.stamps.add(m[1])
                except FileNotFoundError:
                    m = 0
                read.append({"n": n, "m": m})
            ver = "gen" if s["gen"] else "v%d" % s["ver"]
            rspseen = ""
            if s["rsp"]:
                try:
                    rspseen = rsp_content(s) if s.get("rspnone") else open(self.p(rsp_path(s))).read()
                except FileNotFoundError:
                    rspseen = "<no rspfile>"
                ver += "|" + rspseen
            dirs = all(os.path.isdir(os.path.dirname(self.p(o))) for o in s["outs"] + s["iouts"])
            running[sid] = {"content": term("e%d" % sid, ver, ins)}
            pu = {}
            for r in running:
                pu[self.by_id[r]["pool"]] = pu.get(self.by_id[r]["pool"], 0) + 1
            self.events.append({"e": "Start", "s": sid, "t": self.now_stamp(), "read": read, "rsp": rspseen, "dirs": dirs, "run": run_ids(),
                                "pools": [{"p": p_, "n": n_} for p_, n_ in sorted(pu.items())],
                                "fifo": -1,     # the pool cannot be counted while ninja runs without racing with it; it is counted at Exit
                                "console": s["pool"] == "console", "cmd": cmd_text(s, self.vcmd, self.ctl) + (" --trap 60 " + " ".join(s["outs"]) if s.get("trap") else ""),
                                "desc": "E%d%s" % (s["id"], (" " + DECOR[s["decor"]]) if s.get("decor") else ""), "outs": "".join(o + " " for o in s["outs"])})
            for er in step.get("editrun", []):
                if er["k"] == started_n:
                    f = er["f"]
                    self.put(f, term(f, "w%d" % started_n, []))
                    self.events.append({"e": "EditRun", "f": f})

        def on_done(sid):
            code, wrote = pending_done.pop(sid)
            running.pop(sid, None)
            wl = []
            for o in wrote:
                try:
                    ns = os.stat(self.p(o)).st_mtime_ns
                    self.stamps.add(ns)
                    wl.append({"n": o, "m": ("ns", ns)})
                except FileNotFoundError:
                    pass   # e.g. the depfile, already consumed by ninja
            self.events.append({"e": "Done", "s": sid, "code": code, "wrote": wl, "t": self.now_stamp(), "run": run_ids(), "out": self.printed.get(sid, "")})

        while True:
            if time.time() > deadline:
                abnormal = True
                proc.kill()
                break
            rl, _, _ = select.select([trace_fd] + ([proc.stdout] if not stdout_eof else []), [], [], 0.05)
            if proc.stdout in rl:
                try:
                    chunk = proc.stdout.read()
                except BlockingIOError:
                    chunk = None
                if chunk:
                    out += chunk
                elif chunk == b"":
                    stdout_eof = True
            for fd in (trace_fd,):
                if fd in rl:
                    try:
                        rbuf[fd] += os.read(fd, 65536)
                    except BlockingIOError:
                        pass
            # hook events of ninja
            while b"\n" in rbuf[trace_fd]:
                line, rbuf[trace_fd] = rbuf[trace_fd].split(b"\n", 1)
                try:
                    ev = json.loads(line.decode("latin-1"))
                except ValueError:
                    continue
                st = self.by_out.get(ev.get("out", ""))
                sid = st["id"] if st else 0
                if ev["h"].startswith("Fin:") and sid in pending_done:
                    on_done(sid)
                self.events.append({"e": "H", "h": ev["h"], "s": sid, "d": ev.get("d", "")})
                if ev["h"] == "CleanupBegin" and not sent_signal:
                    # ninja abandons the build without having been signalled (a command ended with status 130, a load error in
                    # mid-build): it waits for the commands still running without signalling them, so they end on their own
                    for r in list(running.keys()):
                        if r not in pending_done:
                            send_script(r)
                if ev["h"] == "StartEdge" and sid and not step.get("dry"):
                    # ninja spawns the command right after this hook event: wait for the command's own start
                    # message (event based, no timing assumption; the watchdog only catches a command that never starts)
                    if not self._await_start(req_fd, rbuf, sid, on_start, proc):
                        self.events.append({"e": "SpawnFail", "s": sid})
                if ev["h"] == "Wait":
                    waits += 1
                    if step.get("kill", -1) == waits:
                        # the ninja process dies (SIGKILL); its commands live on: each either finishes on its own or dies too
                        sent_signal = True
                        proc.kill()
                        proc.wait()
                        orphans = []
                        for r in list(running.keys()):
                            completes = self.ch.choose(2)
                            wrote = []
                            if completes:
                                send_script(r)
                                self._wait_gone(self.pids.get(r, 0))
                                code_, wl_ = pending_done.pop(r)
                                for o in wl_:
                                    try:
                                        ns = os.stat(self.p(o)).st_mtime_ns
                                        self.stamps.add(ns)
                                        wrote.append({"n": o, "m": ("ns", ns)})
                                    except FileNotFoundError:
                                        pass
                            else:
                                try:
                                    if self.pids.get(r, 0) > 0:
                                        os.kill(self.pids[r], signal.SIGKILL)
                                except (ProcessLookupError, PermissionError):
                                    pass
                                self._wait_gone(self.pids.get(r, 0))
                            orphans.append({"s": r, "completes": bool(completes), "wrote": wrote})
                        running.clear()
                        self.events.append({"e": "Crash", "point": "sigkill", "n": waits, "orphans": orphans})
                        died = True
                    elif intr == waits:
                        self.events.append({"e": "Interrupt", "run": run_ids()})
                        interrupted = True
                        sent_signal = True
                        proc.send_signal(getattr(signal, "SIG" + sig))
                    elif running and not pending_done and step.get("burst") and len(running) > 1:
                        # every running command completes before ninja looks again: ninja is stopped meanwhile, so it
                        # finds several finished commands in one poll round
                        proc.send_signal(signal.SIGSTOP)
                        for r in list(running.keys()):
                            send_script(r)
                            self._wait_gone(self.pids.get(r, 0))
                        proc.send_signal(signal.SIGCONT)
                    elif running and not pending_done:
                        ids = sorted(running.keys(), key=lambda r: list(running.keys()).index(r))
                        idx = self.ch.choose(len(ids)) if len(ids) > 1 else 0
                        send_script(ids[idx])
                        if fails.get(ids[idx], {}).get("code") == 130:
                            # ninja takes a command that ends with status 130 for a user interrupt and stops the build
                            interrupted = True
            if proc.poll() is not None:
                # drain
                try:
                    chunk = proc.stdout.read()
                    if chunk:
                        out += chunk
                except (BlockingIOError, ValueError):
                    pass
                # remaining trace lines
                try:
                    rbuf[trace_fd] += os.read(trace_fd, 1 << 20)
                except BlockingIOError:
                    pass
                while b"\n" in rbuf[trace_fd]:
                    line, rbuf[trace_fd] = rbuf[trace_fd].split(b"\n", 1)
                    try:
                        ev = json.loads(line.decode("latin-1"))
                    except ValueError:
                        continue
                    st = self.by_out.get(ev.get("out", ""))
                    sid = st["id"] if st else 0
                    if ev["h"].startswith("Fin:") and sid in pending_done:
                        on_done(sid)
                    self.events.append({"e": "H", "h": ev["h"], "s": sid, "d": ev.get("d", "")})
                break
        code = proc.wait()
        if code < 0:
            code = 128 - code
        # commands killed by ninja (interrupt): reap state
        if (interrupted or running) and not died:
            self.events.append({"e": "Abort", "killed": [{"s": r, "partial": bool(self.by_id[r].get("trap"))} for r in running]})
        text = out.decode("latin-1")
        left = -1
        if keep:
            left = self.fifo_count(jf)
            os.close(keep[0])
            os.close(keep[1])
        os.close(req_fd)
        os.close(trace_fd)
        self.outputs.append(text)
        if died:
            self.events.append({"e": "Died", "tree": self.tree(), "logs": {"e": "Logs", "blog": [], "dlog": [], "st": [1, 1], "warn": ""}})
        elif abnormal:
            self.events.append({"e": "Abnormal", "status": -1, "tree": self.tree()})
        else:
            self.events.append({"e": "Exit", "code": code, "msg": text[-300:], "mc": msg_class(text, code), "cyc": cycle_path(text), "fifo": left,
                                "tree": self.tree(), "logs": {"e": "Logs", "blog": [], "dlog": [], "st": [1, 1], "warn": ""}, "stdout": text})
        # kill stray helpers of an interrupted/failed run
        subprocess.run(["pkill", "-f", self.ctl], capture_output=True)

    def _wait_gone(self, pid):
        if not pid:
            return
        for _ in range(2000):
            if not os.path.exists("/proc/%d" % pid):
                return
            try:
                st = open("/proc/%d/stat" % pid).read().split()[2]
                if st == "Z":
                    return
            except (OSError, IndexError):     # the process vanished while /proc was read (ESRCH)
                return
            time.sleep(0.002)

    def _await_start(self, req_fd, rbuf, sid, on_start, proc):
        if sid in self.announced:
            # its start message overtook the hook event of an earlier command: it takes effect here, in the order of ninja's
            # own StartEdge events (the two FIFOs are not ordered with respect to each other)
            self.announced.discard(sid)
            on_start(sid)
            return True
        t_end = time.time() + 20
        while time.time() < t_end:
            while b"\n" in rbuf[req_fd]:
                line, rbuf[req_fd] = rbuf[req_fd].split(b"\n", 1)
                parts = line.decode().split()
                if len(parts) >= 2 and parts[0] == "S":
                    got = int(parts[1][1:])
                    self.pids[got] = int(parts[2]) if len(parts) > 2 else 0
                    if got == sid:
                        on_start(got)
                        return True
                    self.announced.add(got)
            if proc.poll() is not None:
                return False      # ninja gave up before the command started (StartEdge failed)
            rl, _, _ = select.select([req_fd], [], [], 0.05)
            if req_fd in rl:
                try:
                    rbuf[req_fd] += os.read(req_fd, 65536)
                except BlockingIOError:
                    pass
        return False

    # -- dense ranks -----------------------------------------------------------
    def finish(self):
        order = {ns: i + 2 for i, ns in enumerate(sorted(self.stamps))}

        def conv(x):
            if isinstance(x, tuple) and len(x) == 2 and x[0] == "ns":
                return order[x[1]]
            if isinstance(x, dict):
                return {k: conv(v) for k, v in x.items()}
            if isinstance(x, list):
                return [conv(v) for v in x]
            return x
        return [conv(e) for e in self.events]


def cycle_path(text):
    k = text.find("dependency cycle: ")
    if k < 0:
        return []
    rest = text[k + 18:].split("\n")[0]
    rest = rest.split(" [-w")[0].strip()
    return rest.split(" -> ")


def explore(sc, ninja, vcmd, maxruns=8):
    """All completion orders (up to maxruns) of one scenario; returns list of event lists."""
    runs = []
    prefix = []
    n = 0
    while True:
        ch = Chooser(prefix)
        ex = Execution(sc, ninja, vcmd, ch, n)
        runs.append(ex.run())
        n += 1
        t, a = ch.taken, ch.arity
        i = len(t) - 1
        while i >= 0 and t[i] + 1 >= a[i]:
            i -= 1
        if i < 0 or n >= maxruns:
            break
        prefix = t[:i] + [t[i] + 1]
    return runs


if __name__ == "__main__":
    import nbuild
    bins = nbuild.build("dbg", ["ninja", "verif_cmd"])
    scs = [json.loads(l) for l in open(sys.argv[1]) if l.strip()]
    out = open(sys.argv[2], "w")
    for i, sc in enumerate(scs[:int(sys.argv[3]) if len(sys.argv) > 3 else None]):
        sc.setdefault("id", "h2-%d" % i)
        for evs in explore(sc, bins["ninja"], bins["verif_cmd"]):
            for e in evs:
                out.write(json.dumps(e) + "\n")
    out.close()
