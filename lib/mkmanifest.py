#!/usr/bin/env python3
"""Regenerates /verif/MANIFEST.json from the table below (single source of truth)."""
import json, os, subprocess
VERIF = os.path.dirname(os.path.dirname(os.path.abspath(__file__)))
props = [json.loads(l) for l in open(os.path.join(VERIF, "properties.jsonl"))]
ids = [p["id"] for p in props]

ENGINE_NOTE = ("Trusted: TLC; the Ref definitions of spec/NinjaRef.tla (written from the property text and the manual); the harness's "
               "model disk / model command runner honouring the DiskInterface / CommandRunner contracts; the property's stated assumptions. "
               "Bounded: graphs of <= 4 statements from the shape library x feature profiles of spec/Families.tla, seed-selected members, "
               "completion orders enumerated by DFS up to a cap per scenario.")

CHECKS = {
 "C01": dict(cat="model_checking", ref="6.C01", tech="TLA+ reference semantics (NinjaRef!CleanContent) checked by TLC on traces of the real engine classes replayed over TLC-generated scenario families (trace validation); part of the families also on the real ninja binary with real files and mtimes",
             text="Every execution of the real scan/plan/build/log classes over TLC-generated graph x history scenarios, under every completion order, is validated by TLC against the reference make semantics: after exit 0 every needed output must equal CleanContent. Known finding KF-DEPS-SKIPPED is reported by signature."),
 "C02": dict(cat="model_checking", ref="6.C02", tech="TLC trace validation of real-engine executions against RefTrace.tla (second build of the same targets must start nothing)",
             text="Same pipeline as C01; the monitor is the action property over two consecutive invocations without an intervening change."),
 "C03": dict(cat="model_checking", ref="6.C03", tech="TLC trace validation: started set of every invocation compared with NinjaRef!ExpectedRun (history-based make semantics with 'was rewritten' propagation)",
             text="For every invocation of every replayed history the set of commands handed to the command runner must equal the declarative ExpectedRun fixpoint computed by TLC from ghost history, not from ninja's logs."),
 "C04": dict(cat="model_checking", ref="6.C04", tech="TLC trace validation of all completion orders (DFS in the harness) against the ordering/readiness monitors of RefTrace.tla",
             text="At every Start event of every schedule: all producers (any input kind, recorded deps, dyndep) that had work are done, directories exist, rspfile content is in place."),
 "C05": dict(cat="model_checking", ref="6.C05", tech="fault sets x -k x -j x completion orders generated from Families.tla, real engine executions validated by TLC against the failure-containment monitors",
             text="Fault enumeration over subsets of failing commands (exit codes, touched outputs), -k and -j, all completion orders; monitors: nothing downstream starts, exit status, no record written (next build retries), -k completeness."),
 "C14": dict(cat="model_checking", ref="6.C14", engine="function-reference", tech="TLA+ reference normaliser (CanonRef.tla) explored exhaustively by TLC (one state per string, laws as invariants); every enumerated string replayed on CanonicalizePath with the TLC-computed expectation; random long paths validated by TLC (CanonTrace.tla)",
             text="Bounded-exhaustive in both the model and the implementation: all strings over {a,b,.,/} up to the stated length are TLC states on which the laws of the property hold for the reference, and each is an implementation test; random long paths with arbitrary bytes are checked code->spec.",
             note="Trusted: TLC; CanonRef.tla as the meaning of lexical equality (one-step rewrites) and of the normal form. Bounded by the alphabet and length given in the evidence."),
 "C16": dict(cat="model_checking", ref="6.C16", engine="function-reference", tech="TLA+ quoting reference and sh word-formation model (ShellQuote.tla) checked by TLC for every name/list state; each state replayed through the real Edge expansion and the real /bin/sh; rspfile clauses by TLC trace validation of engine executions (in-process harness, and the real binary on the real file system: a failing command leaves its response file behind, the content then shrinks)",
             text="Every name of <= 2 bytes, every 3-byte name over the shell-special alphabet and every list of <= 3 hostile names is a TLC state satisfying ShWords(JoinQ(names)) = names; the real $in/$out/$in_newline expansion of each is executed through /bin/sh -c and must give back exactly the names (alarm), equality with the reference text is reported as conformance; response-file monitors run on engine traces.",
             note="Trusted: TLC; /bin/sh (dash) as the shell; the argv helper. The sh model is bound to the real shell by executing every expansion."),
 "C08": dict(cat="model_checking", ref="6.C08", engine="log-model", tech="TLA+ byte-level model of .ninja_log (BuildLog.tla) model-checked by TLC over all record/tear/append sequences; TLC-exported and random operation sequences replayed on the real BuildLog with real files and validated by TLC (BuildLogTrace.tla)",
             text="Design level: every sequence of records, tears at any byte and appends behind the tear (bounded alphabet) satisfies the property-level clauses Safe/Complete/Exact for the documented loader. Code level: the same operation alphabet plus recompaction, restat, version changes and long random histories run on the real class; after every load the real table must satisfy the clauses with respect to the ghost history.",
             note="Trusted: TLC; the clauses of BuildLogRef.tla as the reading of 'at worst out of date'; the harness's truncation of real files. Bounded: 2 outputs x 2 mtimes x 2 commands in the exhaustive part, MaxOps as in the evidence; 256 KiB line limit not modelled."),
 "C09": dict(cat="model_checking", ref="6.C09", engine="log-model", tech="TLA+ byte-level model of .ninja_deps (DepsLog.tla: ids, padding, checksums, recovery) model-checked by TLC; TLC-exported tear/damage/recompaction sequences and random histories replayed on the real DepsLog and validated by TLC (DepsLogTrace.tla)",
             text="Design level: TableIsHistory and ReloadAgrees hold in every state of all record/tear/damage sequences over paths of every padding. Code level: after every operation GetDeps of the real class must equal the reference table, files must be cut at the last complete record, reloads must find nothing to cut, recompaction must drop exactly the outputs without deps statement.",
             note="Trusted: TLC; DepsLogRef.tla as the documented format; the harness's truncation/damage of real files. Bounded: 4 paths (lengths 1-4), 2 mtimes, damage tails from a fixed list in the exhaustive part."),
 "C15": dict(cat="model_checking", ref="6.C15", engine="function-reference", tech="TLA+ encoder of the GCC/Clang depfile dialect and reference decoder (Depfile.tla); TLC checks Decode(Encode(x)) = x for every bounded rule list x layout x dialect inside the injective fragment; every such text replayed on DepfileParser::Parse with the expected reading",
             text="One TLC state per (rule list, layout, dialect); the round-trip law holds on the reference inside the fragment where the dialect is injective (collisions are computed over the exported families and must lie outside it); each fragment text is an implementation test. The backslash-before-'$' defect of the tree is a listed known finding.",
             note="Trusted: TLC; Depfile.tla's Encode as what GCC (>= 10 and < 10) and Clang write, Decode as the documented reading. Bounded: names <= 3 characters over an 8-character alphabet, <= 3 dependencies exhaustively, 24-name lists sampled."),
 "C06": dict(cat="model_checking", ref="6.C06", tech="pool assignments x -j x jobserver sizes x failures x interrupts generated from Families.tla; all completion orders on the real Plan/Builder/pools and the real POSIX jobserver client on a real FIFO; TLC trace validation against the limit / no-idle / token monitors of RefTrace.tla; design-level model checking of NinjaImplMC.tla on pool graphs (invariants Limits and NoIdle, liveness Termination under FairSpec), bound to the code by replaying every recorded plain invocation step by step on the model's invocation state (ImplDynTrace.tla)",
             text="Invariants at every Start (running <= -j, per-pool <= depth, console 1, running <= tokens held, started once), at every Wait (no startable command while a slot is free and budget lasts), at Exit on every path (tokens in the FIFO = initial, never 'stuck'); termination by a watchdog on each invocation. Design level: every completion and failure order of one invocation over pool graphs, -j 1..3, -k 1/2/unlimited, exhaustively; the dynamic conformance (evidence: impl_conformance.dynamic) carries it to the code."),
 "C07": dict(cat="fault_enumeration", ref="6.C07", tech="named crash points (VERIF_CRASH_POINT hooks) x passage number and interrupts at every wait, enumerated from Families.tla; each invocation of the real classes is a forked process that dies at the point; recovery builds validated by TLC against NinjaRef!CleanContent and the interrupt clauses; design level: NinjaImplMC.tla with the Crash action (any point of a build, any subset of running commands completing as orphans, build-log record without deps-log record) model-checked for Recovers / NoStale",
             text="Fault enumeration over the crash points between every two persistence steps of FinishCommand/RecordCommand/RecordDeps and over interrupts, with orphaned commands completing or not; the recovery build must succeed and leave the needed closure equal to a clean build; after an interrupt: status 130, lock file gone, modified outputs (all outputs of depfile commands) gone."),
 "C10": dict(cat="model_checking", ref="6.C10", tech="metamorphic twin scenarios (discovered dependencies vs the same written as implicit inputs) generated from Families.tla, both run on the real engine; TLC trace validation compares commands, results and final contents per invocation (RefTrace.tla twin monitor)",
             text="For every scenario with depfile / deps=gcc / deps=msvc dependencies (sources or generated, with or without a manifest path) and every change set and schedule, the run must start the same commands, end the same way and leave the same contents as the declared twin; ordering of generated headers is checked by the C04 monitor on the same traces. KF-DEPS-SKIPPED is reported by signature."),
 "C11": dict(cat="model_checking", ref="6.C11", tech="metamorphic twin scenarios (dyndep file vs its information inlined in the manifest) over dyndep graph shapes from Families.tla, plus every deletion / duplication / truncation / substitution variant of a dyndep file generated and judged valid or invalid by the token-level reference grammar spec/Dyndep.tla; all completion orders on the real engine, TLC trace validation (twin monitor; invalid file => build fails and none of its statements starts; valid variant => all engine monitors with the variant's meaning)",
             text="Dyndep files that exist or are produced during the build (clean or dirty producer, shared, two levels, extra order-only inputs, discovered inputs/outputs/restat): same commands, result and final contents as the inlined twin for every history and schedule.  Invalid variants (malformed, truncated at every token, statement omitted / added / twice, foreign or duplicate output, bad path) of a file shared by two statements, as a source and as a build product: the build must fail., and a dyndep file that is neither there nor produced."),
 "C17": dict(cat="model_checking", ref="6.C17", tech="graphs with back edges through every input kind, multi-output statements, recorded dependencies and dyndep files generated from Families.tla; real scan/build executions validated by TLC against the graph-theoretic cycle definition of NinjaRef.tla (CycleStmts / AcyclicN)",
             text="Soundness and completeness of cycle diagnosis over generated graphs: a cycle in the needed closure => non-zero exit, 'dependency cycle' message whose hops are real inputs, first = last, no command of the cycle run; no cycle => never the cycle message (validation back references included)."),
 "C19": dict(cat="model_checking", ref="6.C19", tech="histories with dry-run invocations (after changes, failures, crashes, early stops) from Families.tla on the real engine, and histories in which every read-only tool of the real ninja binary is run (family tools, H2); TLC trace validation against NinjaRef: no command started, sources/outputs/depfiles and both logs unchanged, dry-run listing = ExpectedRun, `-t commands` = non-phony statements of the from-scratch needed closure in an order respecting Producers, compdb output parses as JSON with quotes / control characters / non-ASCII bytes in the commands",
             text="Dry-run part on the in-process harness: tree and log meaning before/after, prediction equals the reference (superset with restat). Tool part on the real binary: commands, commands -s, inputs, multi-inputs, query, targets (all/depth/rule), rules (-d), graph, compdb (all/rule), compdb-targets, deps (all/target), missingdeps on fresh and built-then-changed trees; the builds that follow must behave as if the tools had not run (engine monitors on the same trace)."),
 "C18": dict(cat="model_checking", ref="6.C18", tech="clean scopes as TLA+ set comprehensions (CleanRef.tla) checked by TLC on executions of the real Cleaner (all / targets / rules / -g / -n / cleandead) over generated graphs (cyclic ones included), tree states and manifest variants; design level: src/clean.cc transcribed (Clean.tla) and model-checked against CleanRef for every graph x subset of existing files x log content x scope, bound to the code by replaying every recorded clean on the model (CleanTrace.tla)",
             text="For every generated graph x tree state x scope: removed files lie inside the scope and outside sources / phony names / (without -g) generator outputs, every existing file of the scope is removed (dry run: counted, nothing removed), and the following build re-creates everything (C01 monitor on the same trace)."),
 "C12": dict(cat="model_checking", ref="6.C12", engine="function-reference", tech="TLA+ reference evaluator over manifest ASTs (Manifest.tla: scopes, immediate/late expansion, include vs subninja, constraints); TLC evaluates it on seed-sampled programs of a bounded grammar, renders them to text and exports (files, expected graph or error); each program (in two layouts) is parsed by the real ManifestParser and the dumped State compared; token level: a reference parser over token sequences (ManifestTok.tla) judges every single-token mutation (deletion, duplication, swap, substitution, insertion, truncation; tab indentation and bad escapes included) of valid token-level programs, one TLC state and one implementation test per mutant; character level: a reference reader of values and paths ($-escapes, continuations, CRLF, separators; Lexer.tla), every string of the bounded space a TLC state and a test of the real Lexer",
             text="One TLC state per sampled program (the reference is total and classifies every rejection); every program is an implementation test: verdict, every edge's outputs, input kinds, validations, rule, pool, evaluated command/description/depfile/rspfile/rspfile_content/flags/dyndep, defaults and pools must equal the reference; rejections must carry a file:line diagnostic.",
             note="Trusted: TLC; Manifest.tla as the reading of the manual (two readings fixed in DESIGN.md 6.C12); paths/values come from a fixed vocabulary whose canonical and shell-quoted forms are tabulated in the spec; character-level lexing beyond the $-escapes used by the renderer is covered by C13 only for robustness."),
 "C13": dict(cat="exploration", ref="6.C13", engine="sanitizer-exploration", tech="bounded-exhaustive token strings of the alphabets in spec/Fuzz.tla and seeded mutations of TLC-rendered manifests and real logs, run through ASan+UBSan builds of the real parsers/loaders with a watchdog (harness/c13.cc)",
             text="Exploration, not model checking: TLA+ cannot express memory safety; the specification contributes the input spaces (token alphabets and bounds, valid seeds rendered from Manifest.tla, logs from the writer models). Every input must end in 'processed' or 'reported an error'; a sanitizer report, signal, uncaught exception or watchdog timeout is a violation.",
             note="Trusted: clang ASan/UBSan (alignment check off, leak check off), the watchdog. Bounded: alphabets and token counts in the evidence."),
 "C20": dict(cat="model_checking", ref="6.C20", tech="Status-interface call sequences of real engine executions (pools incl. console, failures, restat pruning, dyndep additions, interrupts) validated by TLC against the counter monitors of RefTrace.tla; and the byte stream the real StatusPrinter/LinePrinter write to a captured stdout (file = piped, pseudo terminal = smart terminal) for every Status call of those executions, lexed into status / FAILED / output tokens and validated by TLC against the reference machine spec/StatusStream.tla (exactly once, contiguous, after its own status line, console hold-back and release, droppable status lines, counters)",
             text="Counter clauses over every schedule of the generated scenarios: started <= total, finished <= started at every call, every started command reported finished unless interrupted or killed on a fatal error, finished = started = total after success. Stream clauses (family status): outputs with marks, NUL, ANSI sequences, CR, look-alike text, long runs, with and without final newline; failing commands; console-pool statements; -j/-k; restat pruning; piped and terminal mode. Not covered: output arriving in pieces through real subprocess pipes, non-default NINJA_STATUS/--status."),
}

NOT_YET = "check not built yet (work in progress; see DESIGN.md section 9)"

def main():
    commits = subprocess.run(["git", "-C", "/repo", "log", "--format=%H %s", "--grep=^verif:"], capture_output=True, text=True).stdout.strip().split("\n")
    m = {
     "version": 1,
     "setup_cmd": "python3 lib/nbuild.py dbg h1 ninja",
     "hooks": {"guard": "NINJA_VERIF",
               "enable": "checks compile /repo/src/*.cc (current working tree) directly with -DNINJA_VERIF via lib/nbuild.py into /verif/.build; VERIF_REPO overrides /repo",
               "baseline_off_cmd": "cmake --build /repo/_build && ctest --test-dir /repo/_build -j8 --timeout 900",
               "source_commits": [c.split(" ")[0] for c in commits if c],
               "add_only": True},
     "engines": [
       {"name": "engine-trace-validation", "path": "lib/engine.py", "serves_properties": [i for i in ids if i in CHECKS and i <= "C07"],
        "kind_free_text": "TLC exports scenario families (spec/Families.tla); harness/h1.cc runs them on the real classes under all completion orders; TLC validates every execution against spec/RefTrace.tla (monitors from spec/NinjaRef.tla)"},
       {"name": "function-reference", "path": "lib/fnlib.py", "serves_properties": [i for i in ids if CHECKS.get(i, {}).get("engine") == "function-reference"],
        "kind_free_text": "TLA+ reference function + laws model-checked by TLC over a bounded input space; every enumerated input exported by TLC and replayed on the real function (harness/fn.cc); recorded random calls validated by a TLC trace spec"},
       {"name": "sanitizer-exploration", "path": "harness/c13.cc", "serves_properties": ["C13"],
        "kind_free_text": "input spaces defined in spec/Fuzz.tla, enumerated/mutated by harness/c13.cc against ASan+UBSan builds of the real readers"},
       {"name": "log-model", "path": "lib/checks.py", "serves_properties": ["C08", "C09"],
        "kind_free_text": "byte-level TLA+ models of the two log formats model-checked by TLC; operation sequences exported by TLC and executed on the real log classes with real files (harness/logh.cc); every execution validated by a TLC trace spec"}],
     "checks": [],
     "not_applicable": [],
     "notes": "See DESIGN.md. exit 2 from a check means the check itself is broken (never a violation).",
    }
    for i in ids:
        if i in CHECKS:
            c = CHECKS[i]
            m["checks"].append({
              "property_id": i,
              "quick_cmd": "bin/check %s --tier quick" % i,
              "thorough_cmd": "bin/check %s --tier thorough" % i,
              "evidence_file": "/verif/evidence/%s.json" % i,
              "replay_cmd_template": "bin/check %s --replay {path}" % i,
              "engine": c.get("engine", "engine-trace-validation"),
              "level_claimed": {"category": c["cat"], "text": c["text"], "design_ref": c["ref"]},
              "level_note": c.get("note", ENGINE_NOTE),
              "technique": c["tech"],
            })
        else:
            m["not_applicable"].append({"property_id": i, "reason": NOT_YET})
    json.dump(m, open(os.path.join(VERIF, "MANIFEST.json"), "w"), indent=1)
    print("checks:", [c["property_id"] for c in m["checks"]])

main()
