#!/usr/bin/env python3
"""Print the execution (Reset..next Reset) that contains trace line L, compactly."""
import json, sys
def summarize(ev):
    e=ev['e']
    if e=='Reset':
        out=['Reset sc=%s run=%s'%(ev['sc'],ev['run'])]
        for s in ev['g']['stmts']:
            fl=[k for k in ('phony','restat','gen','rsp') if s.get(k)]
            out.append('   #%d %s%s: %s | %s || %s |@ %s  hdrs=%s deps=%s %s pool=%s dd=%s'%(s['id'],' '.join(s['outs']),(' | '+' '.join(s['iouts'])) if s['iouts'] else '',' '.join(s['ex']),' '.join(s['im']),' '.join(s['oo']),' '.join(s['val']),s['hdrs'],s['deps'],fl,s['pool'],s['dd']))
        return '\n'.join(out)
    if e in('Invoke',): return 'Invoke targets=%s j=%s k=%s dry=%s tok=%s fail=%s tree=%s'%(ev['targets'],ev['j'],ev['k'],ev['dry'],ev['tok'],ev['fail'],[(t['n'],t['m']) for t in ev['tree']])
    if e=='Env': return 'Env %s f=%s s=%s'%(ev['op'],ev.get('f'),ev.get('s'))
    if e=='Exit': return 'Exit code=%s msg=%s fifo=%s tree=%s'%(ev['code'],ev['msg'],ev['fifo'],[(t['n'],t['m']) for t in ev['tree']])
    if e=='H': return '  H %s s=%s %s'%(ev['h'],ev['s'],ev['d'])
    if e=='St': return None
    if e=='Scanned': return '  Scanned want=%s dirty=%s'%([(w['s'],w['w']) for w in ev['want']],ev['dirty'])
    if e=='Loaded': return '  Loaded blog=%s dlog=%s %s'%([(b['o'],b['m']) for b in ev['blog']],[(d['o'],d['m'],d['d']) for d in ev['dlog']],ev['warn'])
    if e=='Logs': return None
    return '  '+json.dumps({k:v for k,v in ev.items() if k not in('tree','logs')})
def main():
    path=sys.argv[1]; L=int(sys.argv[2])
    lines=open(path).read().split('\n')
    a=L-1
    while a>0 and not lines[a].startswith('{"e":"Reset"'): a-=1
    b=L
    while b<len(lines) and not lines[b].startswith('{"e":"Reset"'): b+=1
    for i in range(a,b):
        if not lines[i]: continue
        s=summarize(json.loads(lines[i]))
        if s: print(('>>' if i==L-1 else '  ')+str(i+1)+': '+s)
main()
