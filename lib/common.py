"""Shared plumbing of the checks: paths, TLC runner, evidence, known findings."""
import hashlib, json, os, re, shutil, subprocess, sys, tempfile, time

VERIF = os.path.dirname(os.path.dirname(os.path.abspath(__file__)))
SPEC = os.path.join(VERIF, "spec")
REPO = os.environ.get("VERIF_REPO", "/repo")
NCPU = min(16, os.cpu_count() or 4)
JAVA_OPTS = "-XX:ParallelGCThreads=2 -XX:CICompilerCount=2 -Xss128m"


class Broken(Exception):
    """The check itself cannot do its job (exit 2)."""


def seed():
    try:
        return int(os.environ.get("VERIF_SEED", "1"))
    except ValueError:
        return 1


def tier(argv_tier=None):
    t = argv_tier or os.environ.get("VERIF_TIER") or "quick"
    return t if t in ("quick", "thorough") else "quick"


def scratch(prefix):
    base = "/dev/shm" if os.path.isdir("/dev/shm") else tempfile.gettempdir()
    return tempfile.mkdtemp(prefix="verif-%s-" % prefix, dir=base)


def run_tlc(module, cfg, env=None, workers=1, extra=(), timeout=1800, metadir=None, xmx="3g", cwd=SPEC):
    """Runs TLC; returns dict(rc, out, states, distinct, diameter, error)."""
    e = dict(os.environ)
    e.pop("JAVA_TOOL_OPTIONS", None)
    if env:
        e.update({k: str(v) for k, v in env.items()})
    md = metadir or tempfile.mkdtemp(prefix="tlcmd-", dir="/dev/shm" if os.path.isdir("/dev/shm") else None)
    # java is started directly (not through the tlc wrapper) so that -Xss also applies to the main
    # thread, in which TLC evaluates ASSUMEs, initial states and their invariants
    cmd = ["timeout", str(timeout), "java", "-Xss512m", "-Xms64m", "-Xmx" + xmx, "-XX:+UseParallelGC", "-XX:ParallelGCThreads=2", "-XX:CICompilerCount=2",
           "-cp", "/opt/veriftools/tla/tla2tools.jar:/opt/veriftools/tla/CommunityModules-deps.jar", "tlc2.TLC",
           "-workers", str(workers), "-metadir", md, "-config", cfg] + list(extra) + [module]
    t0 = time.time()
    r = subprocess.run(cmd, cwd=cwd, env=e, capture_output=True, text=True)
    shutil.rmtree(md, ignore_errors=True)
    out = r.stdout + r.stderr
    res = {"rc": r.returncode, "out": out, "wall": time.time() - t0, "states": 0, "distinct": 0, "diameter": 0, "error": None}
    m = re.findall(r"(\d+) states generated, (\d+) distinct states found", out)
    if m:
        res["states"], res["distinct"] = int(m[-1][0]), int(m[-1][1])
    m = re.findall(r"depth of the complete state graph search is (\d+)", out)
    if m:
        res["diameter"] = int(m[-1])
    if r.returncode != 0 or "Error:" in out:
        em = re.search(r"Error:.*", out)
        res["error"] = em.group(0) if em else "rc=%d" % r.returncode
    return res


def parallel(fn, items, nproc=NCPU):
    """Run fn(item) for all items with up to nproc threads (the work is in subprocesses)."""
    from concurrent.futures import ThreadPoolExecutor
    with ThreadPoolExecutor(max_workers=nproc) as ex:
        return list(ex.map(fn, items))


# --------------------------------------------------------------------------
def load_known_findings():
    p = os.path.join(VERIF, "known_findings.json")
    try:
        return json.load(open(p))["findings"]
    except FileNotFoundError:
        return []


def write_evidence(pid, tier_, level, coverage, wall, violations, assumptions=()):
    ev = {
        "property_id": pid,
        "tier": tier_,
        "seed": seed(),
        "level": level,
        "coverage": coverage,
        "assumptions": list(assumptions),
        "wall_s": round(wall, 2),
        "violations": violations,
    }
    edir = os.environ.get("VERIF_EVIDENCE_DIR") or os.path.join(VERIF, "evidence")
    os.makedirs(edir, exist_ok=True)
    p = os.path.join(edir, pid + ".json")
    tmp = p + ".tmp"
    json.dump(ev, open(tmp, "w"), indent=1, sort_keys=True)
    os.replace(tmp, p)
    return p


def save_replay(pid, name, obj):
    d = os.path.join(os.environ.get("VERIF_REPLAY_DIR") or os.path.join(VERIF, "replays"), pid)
    os.makedirs(d, exist_ok=True)
    p = os.path.join(d, name + ".json")
    json.dump(obj, open(p, "w"), indent=1)
    return p


def report(pid, found, known_hits):
    """found: list of (replay_path, text) of violations not explained by an open
    known finding; known_hits: dict id -> (what, count).  Prints the interface
    lines and returns the exit code."""
    for kid, (what, n) in sorted(known_hits.items()):
        print("KNOWN-FINDING: property=%s %s: %s (%d occurrences in this run)" % (pid, kid, what, n))
    for path, text in found[:6]:
        print("VIOLATION property=%s replay=%s" % (pid, path))
        print("  " + text)
    if len(found) > 6:
        print("  ... %d more violations" % (len(found) - 6))
    return 1 if found else 0
