// Prints its arguments separated by NUL, terminated by a newline.
#include <stdio.h>
int main(int argc, char** argv) {
  for (int i = 1; i < argc; ++i) { fputs(argv[i], stdout); fputc(0, stdout); }
  fputc('\n', stdout);
  return 0;
}
