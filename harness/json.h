// Minimal JSON value, parser and writer for the verification harnesses.
#ifndef VERIF_JSON_H_
#define VERIF_JSON_H_

#include <stdio.h>
#include <stdlib.h>
#include <string.h>

#include <map>
#include <memory>
#include <string>
#include <vector>

struct JV {
  enum T { Null, Bool, Num, Str, Arr, Obj } t = Null;
  bool b = false;
  long long n = 0;
  std::string s;
  std::vector<JV> a;
  std::vector<std::pair<std::string, JV>> o;

  bool is_null() const { return t == Null; }
  bool has(const char* k) const {
    for (auto& p : o) if (p.first == k) return true;
    return false;
  }
  const JV& operator[](const char* k) const {
    static JV null;
    for (auto& p : o) if (p.first == k) return p.second;
    return null;
  }
  const JV& operator[](size_t i) const { return a[i]; }
  size_t size() const { return t == Arr ? a.size() : o.size(); }
  std::string str(const char* dflt = "") const { return t == Str ? s : dflt; }
  long long num(long long dflt = 0) const { return t == Num ? n : (t == Bool ? (b ? 1 : 0) : dflt); }
  bool boolean(bool dflt = false) const { return t == Bool ? b : (t == Num ? n != 0 : dflt); }
  std::vector<std::string> strs() const {
    std::vector<std::string> r;
    for (auto& x : a) r.push_back(x.s);
    return r;
  }
};

struct JParser {
  const char* p;
  const char* end;
  bool ok = true;
  explicit JParser(const std::string& s) : p(s.data()), end(s.data() + s.size()) {}
  void ws() { while (p < end && (*p == ' ' || *p == '\n' || *p == '\t' || *p == '\r')) ++p; }
  JV parse() {
    ws();
    JV v;
    if (p >= end) { ok = false; return v; }
    if (*p == '{') {
      v.t = JV::Obj; ++p; ws();
      if (p < end && *p == '}') { ++p; return v; }
      while (ok) {
        ws();
        JV k = parse();
        ws();
        if (p >= end || *p != ':') { ok = false; break; }
        ++p;
        JV val = parse();
        v.o.emplace_back(k.s, std::move(val));
        ws();
        if (p < end && *p == ',') { ++p; continue; }
        if (p < end && *p == '}') { ++p; break; }
        ok = false;
      }
    } else if (*p == '[') {
      v.t = JV::Arr; ++p; ws();
      if (p < end && *p == ']') { ++p; return v; }
      while (ok) {
        v.a.push_back(parse());
        ws();
        if (p < end && *p == ',') { ++p; continue; }
        if (p < end && *p == ']') { ++p; break; }
        ok = false;
      }
    } else if (*p == '"') {
      v.t = JV::Str; ++p;
      while (p < end && *p != '"') {
        if (*p == '\\' && p + 1 < end) {
          ++p;
          switch (*p) {
            case 'n': v.s += '\n'; break;
            case 't': v.s += '\t'; break;
            case 'r': v.s += '\r'; break;
            case 'b': v.s += '\b'; break;
            case 'f': v.s += '\f'; break;
            case 'u': {
              unsigned c = 0;
              for (int i = 1; i <= 4 && p + i < end; ++i) {
                char h = p[i];
                c = c * 16 + (h <= '9' ? h - '0' : (h | 32) - 'a' + 10);
              }
              p += 4;
              if (c < 0x80) v.s += (char)c;
              else if (c < 0x800) { v.s += (char)(0xC0 | (c >> 6)); v.s += (char)(0x80 | (c & 0x3F)); }
              else { v.s += (char)(0xE0 | (c >> 12)); v.s += (char)(0x80 | ((c >> 6) & 0x3F)); v.s += (char)(0x80 | (c & 0x3F)); }
              break;
            }
            default: v.s += *p;
          }
          ++p;
        } else {
          v.s += *p++;
        }
      }
      if (p < end) ++p; else ok = false;
    } else if (!strncmp(p, "true", 4)) { v.t = JV::Bool; v.b = true; p += 4; }
    else if (!strncmp(p, "false", 5)) { v.t = JV::Bool; v.b = false; p += 5; }
    else if (!strncmp(p, "null", 4)) { p += 4; }
    else {
      char* e;
      v.t = JV::Num;
      v.n = strtoll(p, &e, 10);
      if (e == p) ok = false;
      p = e;
      // skip fractions/exponents (not used)
      while (p < end && (*p == '.' || *p == 'e' || *p == 'E' || *p == '+' || *p == '-' || (*p >= '0' && *p <= '9'))) ++p;
    }
    return v;
  }
};

inline JV JParse(const std::string& s, bool* ok = nullptr) {
  JParser jp(s);
  JV v = jp.parse();
  if (ok) *ok = jp.ok;
  return v;
}

inline std::string JEsc(const std::string& s) {
  std::string r = "\"";
  for (unsigned char c : s) {
    switch (c) {
      case '"': r += "\\\""; break;
      case '\\': r += "\\\\"; break;
      case '\n': r += "\\n"; break;
      case '\t': r += "\\t"; break;
      case '\r': r += "\\r"; break;
      default:
        if (c < 0x20 || c >= 0x7f) { char b[8]; snprintf(b, sizeof b, "\\u%04x", c); r += b; }
        else r += (char)c;
    }
  }
  return r + "\"";
}

inline std::string JStrs(const std::vector<std::string>& v) {
  std::string r = "[";
  for (size_t i = 0; i < v.size(); ++i) { if (i) r += ","; r += JEsc(v[i]); }
  return r + "]";
}

inline std::string JDump(const JV& v) {
  switch (v.t) {
    case JV::Null: return "null";
    case JV::Bool: return v.b ? "true" : "false";
    case JV::Num: return std::to_string(v.n);
    case JV::Str: return JEsc(v.s);
    case JV::Arr: {
      std::string r = "[";
      for (size_t i = 0; i < v.a.size(); ++i) { if (i) r += ","; r += JDump(v.a[i]); }
      return r + "]";
    }
    case JV::Obj: {
      std::string r = "{";
      for (size_t i = 0; i < v.o.size(); ++i) { if (i) r += ","; r += JEsc(v.o[i].first) + ":" + JDump(v.o[i].second); }
      return r + "}";
    }
  }
  return "null";
}

#endif  // VERIF_JSON_H_
