// H1: in-process engine harness.
//
// Reads scenarios (ndjson, produced by TLC from spec/Families.tla), runs every
// history on the real ninja classes (ManifestParser, State, DependencyScan,
// Plan, Builder, BuildLog, DepsLog on real files, the real POSIX jobserver
// client on a real FIFO) behind a model disk (logical clock) and a model
// command runner (commands are pure functions of what they read at start;
// which running command completes next is a choice point).  All completion
// orders are enumerated by stateless DFS (re-execution with a choice prefix).
// Every invocation runs in a forked child, as a real ninja invocation is a
// fresh process (static pool state, crash = _exit without cleanup); the child
// streams events and disk mutations back over a pipe.
//
// Output: ndjson events (DESIGN.md 4.1) validated by spec/RefTrace.tla.

#include <errno.h>
#include <fcntl.h>
#include <limits.h>
#include <signal.h>
#include <stdarg.h>
#include <stdio.h>
#include <stdlib.h>
#include <string.h>
#include <sys/ioctl.h>
#include <sys/stat.h>
#include <termios.h>
#include <sys/wait.h>
#include <unistd.h>

#include <algorithm>
#include <fstream>
#include <functional>
#include <iterator>
#include <map>
#include <memory>
#include <set>
#include <string>
#include <vector>

#include "build.h"
#include "build_log.h"
#include "clean.h"
#include "deps_log.h"
#include "disk_interface.h"
#include "graph.h"
#include "jobserver.h"
#include "manifest_parser.h"
#include "state.h"
#include "status.h"
#include "status_printer.h"
#include "util.h"
#include "verif_hooks.h"

#include "json.h"

using namespace std;

// ---------------------------------------------------------------------------
// Scenario

struct Stmt {
  int id = 0;
  vector<string> outs, iouts, ex, im, oo, val, hdrs;
  bool phony = false, restat = false, gen = false, rsp = false;
  string deps;   // "", "depfile", "gcc", "msvc"
  string pool;   // "", "console", or a declared pool
  string dd;     // dyndep file used by this statement ("" = none)
  vector<string> ddi, ddo;  // what the dyndep file says for this statement
  bool ddr = false;
  string mkdd;   // this statement's command writes that dyndep file
  int ver = 1, rspver = 1;
  bool badrspdir = false;  // rspfile in a directory that cannot be created
  bool rspnone = false;    // rspfile and rspfile_content are bound, but the path evaluates to nothing: no file is written, the content still counts
  string genlvl;           // "": the generator flag (gen) sits on the rule; "build": set on the build statement; "cleared": the rule says generator = 1, the statement clears it (gen = false)
  vector<string> outp;     // what the command prints, as a list of piece kinds (see RenderOutput)
  // "header switch" statement: reads hdrs while the source hsel has its first content, hdrs2 afterwards; writes a constant
  string hsel;
  vector<string> hdrs2;
  bool split = false;      // the second output is made from the first explicit input alone
  vector<string> AllOuts() const {
    vector<string> r = outs;
    r.insert(r.end(), iouts.begin(), iouts.end());
    return r;
  }
};

struct PoolDecl { string name; int depth; };
static string RenderOutput(const Stmt& st);

struct Scenario {
  string id;
  vector<string> srcs;
  vector<PoolDecl> pools;
  vector<Stmt> stmts;
  map<string, string> ddtext;  // forced (possibly invalid) dyndep file text
  JV hist;
  JV raw;
  string twin;   // "", "deps" or "dyn": also run the variant with the discovered information written into the manifest
};

static Stmt ParseStmt(const JV& j) {
  Stmt s;
  s.id = (int)j["id"].num();
  s.outs = j["outs"].strs(); s.iouts = j["iouts"].strs();
  s.ex = j["ex"].strs(); s.im = j["im"].strs(); s.oo = j["oo"].strs();
  s.val = j["val"].strs(); s.hdrs = j["hdrs"].strs();
  s.phony = j["phony"].boolean(); s.restat = j["restat"].boolean();
  s.gen = j["gen"].boolean(); s.rsp = j["rsp"].boolean();
  s.deps = j["deps"].str(); s.pool = j["pool"].str(); s.dd = j["dd"].str();
  s.ddi = j["ddi"].strs(); s.ddo = j["ddo"].strs(); s.ddr = j["ddr"].boolean();
  s.mkdd = j["mkdd"].str();
  s.ver = (int)j["ver"].num(1); s.rspver = (int)j["rspver"].num(1);
  s.badrspdir = j["badrspdir"].boolean();
  s.outp = j["outp"].strs();
  s.genlvl = j["genlvl"].str();
  s.rspnone = j["rspnone"].boolean();
  s.hsel = j["hsel"].str(); s.hdrs2 = j["hdrs2"].strs();
  s.split = j["split"].boolean();
  return s;
}

static Scenario ParseScenario(const JV& j) {
  Scenario sc;
  sc.raw = j;
  sc.id = j["id"].t == JV::Num ? to_string(j["id"].n) : j["id"].str();
  sc.srcs = j["srcs"].strs();
  for (auto& p : j["pools"].a) sc.pools.push_back({p["name"].str(), (int)p["depth"].num()});
  for (auto& s : j["stmts"].a) sc.stmts.push_back(ParseStmt(s));
  for (auto& p : j["ddtext"].o) sc.ddtext[p.first] = p.second.str();
  sc.hist = j["hist"];
  sc.twin = j["twin"].str();
  return sc;
}

// ---------------------------------------------------------------------------
// Content terms.  A term is the JSON text {"k":..,"v":..,"ins":[...]}.

static string Term(const string& k, const string& v, const vector<string>& ins) {
  string r = "{\"k\":" + JEsc(k) + ",\"v\":" + JEsc(v) + ",\"ins\":[";
  for (size_t i = 0; i < ins.size(); ++i) { if (i) r += ","; r += ins[i]; }
  return r + "]}";
}
static string TxtTerm(const string& text) { return Term("txt", text, {}); }

// ---------------------------------------------------------------------------
// Model disk

struct MFile { int64_t mtime; string content; bool term; };

struct ModelDisk : public DiskInterface {
  map<string, MFile> files;
  set<string> dirs;
  int64_t clock = 1;
  set<string> unwritable_dirs;     // MakeDir fails for these
  int journal_fd = -1;             // child: stream mutations to the parent
  mutable int stat_calls = 0;

  void J(const string& line) {
    if (journal_fd < 0) return;
    string l = line + "\n";
    const char* p = l.data(); size_t n = l.size();
    while (n) { ssize_t w = ::write(journal_fd, p, n); if (w <= 0) { if (errno == EINTR) continue; break; } p += w; n -= w; }
  }

  TimeStamp Stat(const string& path, string* err) const override {
    ++stat_calls;
    auto it = files.find(path);
    if (it != files.end()) return it->second.mtime;
    if (dirs.count(path)) return 1;
    return 0;
  }
  bool MakeDir(const string& path) override {
    if (unwritable_dirs.count(path)) { errno = EACCES; return false; }
    if (files.count(path)) { errno = EEXIST; return false; }
    dirs.insert(path);
    J("{\"j\":\"dir\",\"n\":" + JEsc(path) + "}");
    return true;
  }
  bool DirOk(const string& path) const {
    size_t sl = path.rfind('/');
    if (sl == string::npos) return true;
    return dirs.count(path.substr(0, sl)) > 0;
  }
  void Put(const string& path, const string& content, bool term) {
    ++clock;
    files[path] = MFile{clock, content, term};
    J("{\"j\":\"w\",\"n\":" + JEsc(path) + ",\"m\":" + to_string(clock) + ",\"t\":" + (term ? "true" : "false") + ",\"c\":" + JEsc(content) + "}");
  }
  // a file written with a preserved, old modification time (cp -p, install -p)
  void PutAt(const string& path, const string& content, bool term, int64_t mtime) {
    ++clock;
    files[path] = MFile{mtime, content, term};
    J("{\"j\":\"w\",\"n\":" + JEsc(path) + ",\"m\":" + to_string(mtime) + ",\"t\":" + (term ? "true" : "false") + ",\"c\":" + JEsc(content) + "}");
    J("{\"j\":\"clk\",\"v\":" + to_string(clock) + "}");
  }
  bool WriteFile(const string& path, const string& contents, bool) override {
    if (!DirOk(path)) { errno = ENOENT; return false; }
    Put(path, contents, false);
    return true;
  }
  Status ReadFile(const string& path, string* contents, string* err) override {
    auto it = files.find(path);
    if (it == files.end()) { *err = strerror(ENOENT); return NotFound; }
    *contents = it->second.content;
    return Okay;
  }
  int RemoveFile(const string& path) override {
    auto it = files.find(path);
    if (it == files.end()) return 1;
    files.erase(it);
    J("{\"j\":\"rm\",\"n\":" + JEsc(path) + "}");
    return 0;
  }
  void Tick() { ++clock; J("{\"j\":\"clk\",\"v\":" + to_string(clock) + "}"); }

  string Tree() const {
    string r = "[";
    bool first = true;
    for (auto& f : files) {
      if (!first) r += ",";
      first = false;
      r += "{\"n\":" + JEsc(f.first) + ",\"m\":" + to_string(f.second.mtime) + ",\"c\":" +
           (f.first == "build.ninja" ? TxtTerm("manifest") : f.second.term ? f.second.content : TxtTerm(f.second.content)) + "}";
    }
    return r + "]";
  }
};

// ---------------------------------------------------------------------------
// Globals of one execution

static ModelDisk g_disk;
static vector<string> CurHdrs(const struct Stmt& st);
static Scenario* g_sc = nullptr;
static string g_scratch;        // real directory for the two log files + fifo
static FILE* g_trace = nullptr; // parent only
static int g_pipe = -1;         // child only: event/journal pipe
static bool g_in_child = false;

static void Emit(const string& line) {
  if (g_in_child) {
    string l = line + "\n";
    const char* p = l.data(); size_t n = l.size();
    while (n) { ssize_t w = ::write(g_pipe, p, n); if (w <= 0) { if (errno == EINTR) continue; break; } p += w; n -= w; }
  } else {
    fputs(line.c_str(), g_trace);
    fputc('\n', g_trace);
  }
}

// Choice points ------------------------------------------------------------
struct Chooser {
  vector<int> prefix;   // choices to replay
  vector<int> taken;    // choices made in this run
  vector<int> arity;
  bool random_mode = false;
  unsigned rng = 12345;
  int Choose(int n) {
    int c = 0;
    size_t pos = taken.size();
    if (pos < prefix.size()) c = prefix[pos];
    else if (random_mode) { rng = rng * 1103515245u + 12345u; c = (int)((rng >> 16) % (unsigned)n); }
    if (c >= n) c = n - 1;
    taken.push_back(c);
    arity.push_back(n);
    if (g_in_child) g_disk.J("{\"j\":\"ch\",\"a\":" + to_string(n) + ",\"c\":" + to_string(c) + ",\"r\":" + to_string(rng) + "}");
    return c;
  }
};
static Chooser g_ch;

// ---------------------------------------------------------------------------
// Manifest rendering

static string Join(const vector<string>& v, const char* sep = " ") {
  string r;
  for (size_t i = 0; i < v.size(); ++i) { if (i) r += sep; r += v[i]; }
  return r;
}

static string DdText(const Scenario& sc, const string& dd) {
  auto f = sc.ddtext.find(dd);
  if (f != sc.ddtext.end()) return f->second;
  string t = "ninja_dyndep_version = 1\n";
  for (auto& s : sc.stmts) {
    if (s.dd != dd) continue;
    t += "build " + s.outs[0];
    if (!s.ddo.empty()) t += " | " + Join(s.ddo);
    t += ": dyndep";
    if (!s.ddi.empty()) t += " | " + Join(s.ddi);
    t += "\n";
    if (s.ddr) t += "  restat = 1\n";
  }
  return t;
}

// later versions are shorter: a response file written over a leftover one must not keep the old tail
// (version 0: a content that evaluates to nothing - the response file is written all the same, empty)
static string RspContent(const Stmt& s) { if (s.rspver == 0) return ""; return "rsp-e" + to_string(s.id) + "-v" + to_string(s.rspver) + string(5 * std::max(0, 3 - s.rspver), 'x'); }
static string RspPath(const Stmt& s) { if (s.rspnone) return ""; return (s.badrspdir ? string("nodir/") : string("")) + s.outs[0] + ".rsp"; }

static string RenderManifest(const Scenario& sc) {
  string m;
  for (auto& p : sc.pools) m += "pool " + p.name + "\n  depth = " + to_string(p.depth) + "\n";
  for (auto& s : sc.stmts) {
    if (s.phony) continue;
    m += "rule r" + to_string(s.id) + "\n";
    m += "  command = run e" + to_string(s.id) + " v" + to_string(s.ver) + "\n";
    if (s.restat) m += "  restat = 1\n";
    if ((s.gen && s.genlvl.empty()) || s.genlvl == "cleared") m += "  generator = 1\n";
    if (s.deps == "depfile" || s.deps == "gcc") m += "  depfile = " + s.outs[0] + ".d\n";
    // statements with an even number bind `deps` themselves (below), the others get it from their rule
    if (s.deps == "gcc" && s.id % 2) m += "  deps = gcc\n";
    if (s.deps == "msvc" && s.id % 2) m += "  deps = msvc\n";
    if (s.deps == "msvc" && s.id % 2 == 0) m += "  msvc_deps_prefix = Hinweis: Einlesen der Datei: \n";
    if (s.rsp) m += "  rspfile = " + (s.rspnone ? string("$norsp") : RspPath(s)) + "\n  rspfile_content = " + (s.rspver == 0 ? string("$nothing") : RspContent(s)) + "\n";
  }
  for (auto& s : sc.stmts) {
    m += "build " + Join(s.outs);
    if (!s.iouts.empty()) m += " | " + Join(s.iouts);
    m += ": " + (s.phony ? string("phony") : "r" + to_string(s.id));
    if (!s.ex.empty()) m += " " + Join(s.ex);
    if (!s.im.empty()) m += " | " + Join(s.im);
    if (!s.oo.empty()) m += " || " + Join(s.oo);
    if (!s.val.empty()) m += " |@ " + Join(s.val);
    m += "\n";
    if (!s.pool.empty()) m += "  pool = " + s.pool + "\n";
    if (!s.dd.empty()) m += "  dyndep = " + s.dd + "\n";
    if ((s.deps == "gcc" || s.deps == "msvc") && s.id % 2 == 0) m += "  deps = " + s.deps + "\n";
    if (s.gen && s.genlvl == "build") m += "  generator = 1\n";
    if (s.genlvl == "cleared") m += "  generator =\n";
  }
  return m;
}

// ---------------------------------------------------------------------------
// Child side: one invocation on the real classes

static map<string, Stmt*> g_by_out;
static Stmt* StmtOf(const Edge* e) {
  if (!e || e->outputs_.empty()) return nullptr;
  auto it = g_by_out.find(e->outputs_[0]->path());
  return it == g_by_out.end() ? nullptr : it->second;
}
static int SidOf(const Edge* e) { Stmt* s = StmtOf(e); return s ? s->id : 0; }

struct FailSpec { int code = 0; bool touch = false; bool edep = false; };   // edep: the failing command had already truncated its depfile

struct Running {
  Edge* edge; Stmt* st; string content; int64_t start; bool console;
  vector<string> hdrs;   // the files the command read beyond its declared inputs (reported in depfile / showIncludes)
  string content2;       // split statements: what the second output gets
};

struct InvocationCtx {
  map<int, FailSpec> fail;
  int j = 1;
  bool use_jobserver = false;
  int intr_at_wait = -1;       // return Interrupted at that WaitForCommand call (1-based)
  string crash_point; int crash_n = 0;
  map<string, int> crash_seen;
  vector<pair<int, string>> editrun;  // (after k-th Start, file) edit while running
  int starts = 0, waits = 0;
  vector<Running> running;
  set<int> spawnfail;
};
static InvocationCtx* g_inv = nullptr;

struct VerifAccess {
  static string PlanDump(Builder& b, State& st) {
    string want = "[";
    bool first = true;
    for (auto& w : b.plan_.want_) {
      if (!first) want += ",";
      first = false;
      want += "{\"s\":" + to_string(SidOf(w.first)) + ",\"w\":" + to_string((int)w.second) + "}";
    }
    want += "]";
    string edges = "[";
    first = true;
    for (Edge* e : st.edges_) {
      if (!first) edges += ",";
      first = false;
      vector<string> ins;
      for (Node* n : e->inputs_) ins.push_back(n->path());
      vector<string> outs;
      for (Node* n : e->outputs_) outs.push_back(n->path());
      edges += "{\"s\":" + to_string(SidOf(e)) + ",\"rdy\":" + (e->outputs_ready() ? "true" : "false") +
               ",\"ins\":" + JStrs(ins) + ",\"outs\":" + JStrs(outs) + ",\"imp\":" + to_string(e->implicit_deps_) +
               ",\"oo\":" + to_string(e->order_only_deps_) + ",\"dm\":" + (e->deps_missing_ ? "true" : "false") + "}";
    }
    edges += "]";
    vector<string> dirty;
    for (auto& p : st.paths_) if (p.second->dirty()) dirty.push_back(p.second->path());
    sort(dirty.begin(), dirty.end());
    return "\"want\":" + want + ",\"edges\":" + edges + ",\"dirty\":" + JStrs(dirty) +
           ",\"we\":" + to_string(b.plan_.wanted_edges_) + ",\"ce\":" + to_string(b.plan_.command_edges_);
  }
  static int PoolUse(Pool* p) { return p->current_use(); }
  static size_t PoolDelayed(Pool* p) { return p->delayed_.size(); }
};

static string RunningIds() {
  string r = "[";
  for (size_t i = 0; i < g_inv->running.size(); ++i) { if (i) r += ","; r += to_string(g_inv->running[i].st->id); }
  return r + "]";
}

static int FifoTokens(const string& path);

// The files a statement's command reads beyond its declared inputs, as things are on the disk now.
static vector<string> CurHdrs(const Stmt& st) {
  if (st.hsel.empty()) return st.hdrs;
  auto f = g_disk.files.find(st.hsel);
  bool first = f != g_disk.files.end() && f->second.content == Term(st.hsel, "1", {});
  return first ? st.hdrs : st.hdrs2;
}
struct ModelRunner : public CommandRunner {
  State* state;
  Jobserver::Client* jobserver = nullptr;   // as RealCommandRunner: tokens of killed commands are handed back in Abort()
  explicit ModelRunner(State* s) : state(s) {}

  size_t CanRunMore() const override {
    long cap = (long)g_inv->j - (long)g_inv->running.size();
    if (g_inv->use_jobserver) cap = INT_MAX;
    if (cap < 0) cap = 0;
    if (cap == 0 && g_inv->running.empty()) cap = 1;
    return (size_t)cap;
  }

  bool StartCommand(Edge* edge) override {
    Stmt* st = StmtOf(edge);
    if (!st) { Emit("{\"e\":\"Bad\",\"what\":\"start of unknown edge\"}"); return false; }
    ++g_inv->starts;
    if (g_inv->spawnfail.count(st->id)) {
      Emit("{\"e\":\"SpawnFail\",\"s\":" + to_string(st->id) + "}");
      return false;
    }
    // What the command reads: declared explicit/implicit inputs, its true
    // headers, dyndep-given inputs.  Snapshot taken now.
    vector<string> names = st->ex;
    names.insert(names.end(), st->im.begin(), st->im.end());
    names.insert(names.end(), st->ddi.begin(), st->ddi.end());
    vector<string> hdrs = CurHdrs(*st);
    names.insert(names.end(), hdrs.begin(), hdrs.end());
    vector<string> ins;
    string read = "[";
    for (size_t i = 0; i < names.size(); ++i) {
      auto f = g_disk.files.find(names[i]);
      string c = f == g_disk.files.end() ? Term("missing", names[i], {})
                                          : (f->second.term ? f->second.content : TxtTerm(f->second.content));
      ins.push_back(c);
      if (i) read += ",";
      read += "{\"n\":" + JEsc(names[i]) + ",\"m\":" + to_string(f == g_disk.files.end() ? 0 : f->second.mtime) + "}";
    }
    read += "]";
    string ver = st->gen ? string("gen") : "v" + to_string(st->ver);
    string rspseen = "\"\"";
    if (st->rsp) {
      auto f = g_disk.files.find(RspPath(*st));
      string txt = f == g_disk.files.end() ? string("<no rspfile>") : f->second.content;
      if (st->rspnone) txt = RspContent(*st);   // nothing to read: the command gets the text on its command line
      ver += "|" + txt;
      rspseen = JEsc(txt);
    }
    string content = Term("e" + to_string(st->id), ver, st->hsel.empty() ? ins : vector<string>());
    bool dirs = true;
    for (auto& o : st->AllOuts()) dirs = dirs && g_disk.DirOk(o);
    if (st->deps == "depfile" || st->deps == "gcc") dirs = dirs && g_disk.DirOk(st->outs[0] + ".d");
    string content2 = st->split && !ins.empty() ? Term("e" + to_string(st->id) + "b", ver, {ins[0]}) : string("");
    g_inv->running.push_back(Running{edge, st, content, g_disk.clock, edge->use_console(), hdrs, content2});
    // pool usage as seen by an observer: running members per pool
    map<string, int> pu;
    for (auto& r : g_inv->running) pu[r.st->pool]++;
    string pools = "[";
    bool first = true;
    for (auto& p : pu) { if (!first) pools += ","; first = false; pools += "{\"p\":" + JEsc(p.first) + ",\"n\":" + to_string(p.second) + "}"; }
    pools += "]";
    int tok = g_inv->use_jobserver ? FifoTokens(g_scratch + "/fifo") : -1;
    Emit("{\"e\":\"Start\",\"s\":" + to_string(st->id) + ",\"t\":" + to_string(g_disk.clock) + ",\"read\":" + read +
         ",\"rsp\":" + rspseen + ",\"dirs\":" + (dirs ? "true" : "false") + ",\"run\":" + RunningIds() +
         ",\"pools\":" + pools + ",\"fifo\":" + to_string(tok) + "}");
    // Edits made while commands are running.
    for (auto& er : g_inv->editrun) {
      if (er.first == g_inv->starts && !er.second.empty() && er.second.back() == '/') {
        // a directory (name with a trailing slash) is removed with everything in it while the build runs
        string dir = er.second.substr(0, er.second.size() - 1);
        for (auto it = g_disk.files.begin(); it != g_disk.files.end();)
          if (it->first.compare(0, er.second.size(), er.second) == 0) { g_disk.J("{\"j\":\"rm\",\"n\":" + JEsc(it->first) + "}"); it = g_disk.files.erase(it); } else ++it;
        g_disk.dirs.erase(dir);
        g_disk.J("{\"j\":\"rmdir\",\"n\":" + JEsc(dir) + "}");
        Emit("{\"e\":\"EditRun\",\"f\":" + JEsc(er.second) + ",\"m\":" + to_string(g_disk.clock) + "}");
        continue;
      }
      if (er.first == g_inv->starts) {
        auto f = g_disk.files.find(er.second);
        string old = f == g_disk.files.end() ? "" : f->second.content;
        g_disk.Put(er.second, Term(er.second, "w" + to_string(g_disk.clock + 1), {}), true);
        Emit("{\"e\":\"EditRun\",\"f\":" + JEsc(er.second) + ",\"m\":" + to_string(g_disk.clock) + "}");
      }
    }
    return true;
  }

  // The effects of a command that completes now.
  static string Complete(Running& r, int* code, string* output) {
    Stmt* st = r.st;
    auto fs = g_inv->fail.find(st->id);
    bool fails = fs != g_inv->fail.end();
    *code = fails ? fs->second.code : 0;
    vector<string> wrote;
    string wr = "[";
    auto put = [&](const string& n, const string& c, bool term) {
      g_disk.Put(n, c, term);
      if (!wrote.empty()) wr += ",";
      wrote.push_back(n);
      wr += "{\"n\":" + JEsc(n) + ",\"m\":" + to_string(g_disk.clock) + "}";
    };
    vector<string> outs = st->AllOuts();
    outs.insert(outs.end(), st->ddo.begin(), st->ddo.end());
    // commands write their outputs in any order: statements with an even number write the last one first
    if (st->id % 2 == 0) std::reverse(outs.begin(), outs.end());
    if (!fails) {
      for (auto& o : outs) {
        string c = r.content;
        bool term = true;
        if (o == st->mkdd) { c = DdText(*g_sc, o); term = false; }
        if (st->split && st->outs.size() >= 2 && o == st->outs[1]) c = r.content2;
        auto f = g_disk.files.find(o);
        bool restat = st->restat || st->ddr;
        if (restat && f != g_disk.files.end() && f->second.content == c) continue;  // leaves it untouched
        put(o, c, term);
      }
      if (st->deps == "depfile" || st->deps == "gcc")
        put(st->outs[0] + ".d", st->outs[0] + ": " + Join(r.hdrs) + "\n", false);
      if (st->deps == "msvc")
        // (the compiler of statements with an even number speaks another language: msvc_deps_prefix is a per-rule setting)
        for (auto& h : r.hdrs) *output += string(st->id % 2 ? "Note: including file: " : "Hinweis: Einlesen der Datei: ") + h + "\n";
    } else if (fs->second.touch) {
      for (auto& o : outs) put(o, Term("garbage", "e" + to_string(st->id), {}), true);
      if (st->deps == "depfile" || st->deps == "gcc")
        put(st->outs[0] + ".d", st->outs[0] + ": " + Join(r.hdrs) + "\n", false);
    } else if (fs->second.edep) {
      // e.g. `scan $in > $out.d && compile ...`: the shell truncated the depfile before the first step failed
      if (st->deps == "depfile" || st->deps == "gcc") put(st->outs[0] + ".d", "", false);
    }
    if (fails) *output += "command failed (e" + to_string(st->id) + ")\n";
    *output += RenderOutput(*st);
    if (r.console) output->clear();   // a console command writes to the terminal itself, nothing is captured
    return wr + "]";
  }

  BuildResult WaitForCommand() override { return WaitForCommandOrJobserverToken(false); }
  BuildResult WaitForCommandOrJobserverToken(bool) override {
    ++g_inv->waits;
    if (g_inv->running.empty()) return BuildResult::Finished{};
    if (g_inv->intr_at_wait == g_inv->waits) {
      Emit("{\"e\":\"Interrupt\",\"run\":" + RunningIds() + "}");
      return BuildResult::Interrupted{};
    }
    int idx = g_inv->running.size() > 1 ? g_ch.Choose((int)g_inv->running.size()) : 0;
    Running r = g_inv->running[idx];
    g_inv->running.erase(g_inv->running.begin() + idx);
    int code = 0; string output;
    string wr = Complete(r, &code, &output);
    Emit("{\"e\":\"Done\",\"s\":" + to_string(r.st->id) + ",\"code\":" + to_string(code) + ",\"wrote\":" + wr +
         ",\"t\":" + to_string(g_disk.clock) + ",\"run\":" + RunningIds() + "}");
    ExitStatus es = (ExitStatus)code;
    return BuildResult::CommandCompleted(r.edge, es, output);
  }
  vector<Edge*> GetActiveEdges() override {
    vector<Edge*> v;
    for (auto& r : g_inv->running) v.push_back(r.edge);
    return v;
  }
  void Abort() override {
    // Killed commands: each may already have modified its outputs (partially).
    string k = "[";
    bool first = true;
    for (auto& r : g_inv->running) {
      // 0: killed before writing; 1: outputs partially written; 2: outputs that did not exist re-created with a preserved old time
      int partial = g_ch.Choose(3);
      if (partial == 2) {
        for (auto& o : r.st->AllOuts())
          if (!g_disk.files.count(o)) g_disk.PutAt(o, Term("partial", "e" + to_string(r.st->id), {}), true, 1);
          else g_disk.Put(o, Term("partial", "e" + to_string(r.st->id), {}), true);
      } else if (partial) {
        for (auto& o : r.st->AllOuts()) g_disk.Put(o, Term("partial", "e" + to_string(r.st->id), {}), true);
        if (r.st->deps == "depfile" || r.st->deps == "gcc")
          g_disk.Put(r.st->outs[0] + ".d", r.st->outs[0] + ": " + Join(r.st->hdrs) + "\n", false);
      }
      if (!first) k += ",";
      first = false;
      k += "{\"s\":" + to_string(r.st->id) + ",\"partial\":" + (partial ? "true" : "false") + "}";
    }
    // Release jobserver tokens as the real runner does (RealCommandRunner::ClearJobTokens).
    if (jobserver)
      for (auto& r : g_inv->running) jobserver->Release(std::move(r.edge->job_slot_));
    Emit("{\"e\":\"Abort\",\"killed\":" + k + "]}");
    g_aborted = g_inv->running;
    g_inv->running.clear();
  }
  static vector<Running> g_aborted;
};
vector<Running> ModelRunner::g_aborted;

// What a command prints: pieces with distinguishable marks, NUL bytes, ANSI colour sequences, carriage returns,
// a long run, with or without a final newline.
static string RenderOutput(const Stmt& st) {
  string o;
  int k = 0;
  for (auto& p : st.outp) {
    ++k;
    if (p == "mark") o += "<out " + to_string(st.id) + "." + to_string(k) + ">";
    else if (p == "nl") o += "\n";
    else if (p == "nul") o += string("a\0b", 3);
    else if (p == "ansi") o += "\x1b[31mred\x1b[0m";
    else if (p == "cr") o += "x\ry";
    else if (p == "long") o += string(5000, 'L');
    else if (p == "bracket") o += "[9/9] looks like a status line";
    else if (p == "failed") o += "FAILED: not really";
  }
  return o;
}

// The real StatusPrinter writing to a captured stdout (a file or a pseudo terminal); the bytes it writes are read
// back after every Status call so the trace shows them at the call that produced them.
struct PrinterCapture {
  string mode;   // "pipe" or "tty"
  int rfd = -1;  // file: read side (own offset); tty: master
  bool Setup(const string& m) {
    mode = m;
    if (m == "pipe") {
      string path = g_scratch + "/stdout.cap";
      int wfd = open(path.c_str(), O_CREAT | O_TRUNC | O_WRONLY | O_APPEND, 0600);
      rfd = open(path.c_str(), O_RDONLY);
      if (wfd < 0 || rfd < 0) return false;
      dup2(wfd, 1);
      close(wfd);
      unsetenv("TERM");
    } else {
      int master = posix_openpt(O_RDWR | O_NOCTTY);
      if (master < 0 || grantpt(master) != 0 || unlockpt(master) != 0) return false;
      int slave = open(ptsname(master), O_RDWR | O_NOCTTY);
      if (slave < 0) return false;
      struct termios t;
      tcgetattr(slave, &t);
      cfmakeraw(&t);
      tcsetattr(slave, TCSANOW, &t);
      struct winsize ws = {50, 400, 0, 0};
      ioctl(slave, TIOCSWINSZ, &ws);
      dup2(slave, 1);
      close(slave);
      rfd = master;
      fcntl(rfd, F_SETFL, fcntl(rfd, F_GETFL) | O_NONBLOCK);
      setenv("TERM", "xterm", 1);
    }
    unsetenv("NINJA_STATUS"); unsetenv("NO_COLOR"); unsetenv("CLICOLOR_FORCE"); unsetenv("FORCE_COLOR");
    return true;
  }
  string Drain() {
    fflush(stdout);
    string r;
    char buf[65536];
    for (;;) {
      ssize_t n = read(rfd, buf, sizeof buf);
      if (n <= 0) break;
      r.append(buf, n);
    }
    return r;
  }
};

struct TraceStatus : public Status {
  int total = 0, started = 0, finished = 0;
  StatusPrinter* real = nullptr;
  PrinterCapture* cap = nullptr;
  void Out() {
    if (!cap) return;
    string b = cap->Drain();
    if (b.empty()) return;
    string j = "[";
    for (size_t i = 0; i < b.size(); ++i) { if (i) j += ","; j += to_string((unsigned char)b[i]); }
    Emit("{\"e\":\"Out\",\"b\":" + j + "]}");
  }
  void Ev(const char* c, const Edge* e, const string& extra = "") {
    Emit(string("{\"e\":\"St\",\"c\":\"") + c + "\",\"s\":" + to_string(SidOf(e)) + ",\"tot\":" + to_string(total) +
         ",\"st\":" + to_string(started) + ",\"fin\":" + to_string(finished) + extra + "}");
  }
  string Txt(const Edge* e) {
    if (!real) return "";
    string outs;
    for (Node* o : e->outputs_) outs += o->path() + " ";
    return ",\"console\":" + string(e->use_console() ? "true" : "false") + ",\"cmd\":" + JEsc(const_cast<Edge*>(e)->EvaluateCommand()) +
           ",\"desc\":" + JEsc(e->GetBinding("description")) + ",\"outs\":" + JEsc(outs);
  }
  void EdgeAddedToPlan(const Edge* e) override { ++total; Ev("add", e); if (real) { real->EdgeAddedToPlan(e); Out(); } }
  void EdgeRemovedFromPlan(const Edge* e) override { --total; Ev("remove", e); if (real) { real->EdgeRemovedFromPlan(e); Out(); } }
  void BuildEdgeStarted(const Edge* e, int64_t t) override {
    ++started; Ev("started", e, Txt(e));
    if (real) { real->BuildEdgeStarted(e, t); Out(); }
  }
  void BuildEdgeFinished(Edge* e, int64_t t0, int64_t t1, ExitStatus code, const string& output) override {
    ++finished;
    Ev("finished", e, ",\"code\":" + to_string((int)code) + ",\"out\":" + JEsc(output) + Txt(e));
    if (real) { real->BuildEdgeFinished(e, t0, t1, code, output); Out(); }
  }
  void BuildStarted() override { Ev("buildstarted", nullptr); if (real) { real->BuildStarted(); Out(); } }
  void BuildFinished() override { Ev("buildfinished", nullptr); if (real) { real->BuildFinished(); Out(); } }
  void SetExplanations(Explanations*) override {}
  void NewLine() override {}
  void Msg(const char* kind, const char* msg, va_list ap) {
    char buf[2048];
    vsnprintf(buf, sizeof buf, msg, ap);
    Emit(string("{\"e\":\"Msg\",\"k\":\"") + kind + "\",\"t\":" + JEsc(buf) + "}");
  }
  void Info(const char* msg, ...) override { va_list ap; va_start(ap, msg); Msg("info", msg, ap); va_end(ap); }
  void Warning(const char* msg, ...) override { va_list ap; va_start(ap, msg); Msg("warning", msg, ap); va_end(ap); }
  void Error(const char* msg, ...) override { va_list ap; va_start(ap, msg); Msg("error", msg, ap); va_end(ap); }
};

struct Sink : public VerifSink {
  void Event(const char* name, const Edge* edge, const char* detail) override {
    Emit(string("{\"e\":\"H\",\"h\":\"") + name + "\",\"s\":" + to_string(SidOf(edge)) + ",\"d\":" + JEsc(detail) + "}");
  }
  void CrashPoint(const char* name) override {
    if (!g_inv || g_inv->crash_point.empty()) return;
    int n = ++g_inv->crash_seen[name];
    if (g_inv->crash_point != name || n != g_inv->crash_n) return;
    // The process dies here.  Commands still running either replace their
    // outputs (atomically) afterwards or are killed with it.
    string k = "[";
    bool first = true;
    for (auto& r : g_inv->running) {
      int completes = g_ch.Choose(2);
      if (!first) k += ",";
      first = false;
      string wr = "[]";
      if (completes) { int code; string out; wr = ModelRunner::Complete(r, &code, &out); }
      k += "{\"s\":" + to_string(r.st->id) + ",\"completes\":" + (completes ? "true" : "false") + ",\"wrote\":" + wr + "}";
    }
    Emit(string("{\"e\":\"Crash\",\"point\":\"") + name + "\",\"n\":" + to_string(n) + ",\"orphans\":" + k + "]}");
    _exit(99);
  }
};

struct LogUser : public BuildLogUser {
  State* state;
  explicit LogUser(State* s) : state(s) {}
  bool IsPathDead(StringPiece s) const override {
    Node* n = state->LookupNode(s);
    if (n && n->in_edge()) return false;
    string err;
    TimeStamp mtime = g_disk.Stat(s.AsString(), &err);
    return mtime == 0;
  }
};

static string BlogDump(const BuildLog& bl, State* state = nullptr) {
  vector<string> rows;
  for (auto& e : bl.entries()) {
    char h[32];
    snprintf(h, sizeof h, "%llx", (unsigned long long)e.second->command_hash);
    // cur: the recorded hash is the hash of the statement's current command (and response file content)
    bool cur = false;
    if (state) {
      Node* n = state->LookupNode(e.second->output);
      if (n && n->in_edge())
        cur = BuildLog::LogEntry::HashCommand(n->in_edge()->EvaluateCommand(true)) == e.second->command_hash;
    }
    rows.push_back("{\"o\":" + JEsc(e.second->output) + ",\"m\":" + to_string(e.second->mtime) + ",\"h\":\"" + h + "\",\"cur\":" + (cur ? "true" : "false") + "}");
  }
  sort(rows.begin(), rows.end());
  return "[" + Join(rows, ",") + "]";
}
static string DlogDump(DepsLog& dl) {
  vector<string> rows;
  for (size_t id = 0; id < dl.deps().size(); ++id) {
    DepsLog::Deps* d = dl.deps()[id];
    if (!d) continue;
    vector<string> ins;
    for (int i = 0; i < d->node_count; ++i) ins.push_back(d->nodes[i]->path());
    rows.push_back("{\"o\":" + JEsc(dl.nodes()[id]->path()) + ",\"m\":" + to_string(d->mtime) + ",\"d\":" + JStrs(ins) + "}");
  }
  sort(rows.begin(), rows.end());
  return "[" + Join(rows, ",") + "]";
}

static int FifoTokens(const string& path) {
  int fd = open(path.c_str(), O_RDONLY | O_NONBLOCK);
  if (fd < 0) return -1;
  // count without consuming: read all, write back
  char buf[256];
  ssize_t n = read(fd, buf, sizeof buf);
  if (n < 0) n = 0;
  if (n > 0) {
    int wfd = open(path.c_str(), O_WRONLY | O_NONBLOCK);
    if (wfd >= 0) { ssize_t w = write(wfd, buf, n); (void)w; close(wfd); }
  }
  close(fd);
  return (int)n;
}

// Runs in the forked child.  Never returns.
static void ChildInvocation(const JV& step) {
  static Sink sink;
  g_verif_sink = &sink;
  InvocationCtx inv;
  g_inv = &inv;
  inv.j = (int)step["j"].num(1);
  for (auto& f : step["fail"].a) inv.fail[(int)f["s"].num()] = FailSpec{(int)f["code"].num(1), f["touch"].boolean(), f["edep"].boolean()};
  for (auto& f : step["spawnfail"].a) inv.spawnfail.insert((int)f.num());
  inv.intr_at_wait = (int)step["intr"].num(-1);
  if (step["crash"].t == JV::Obj) { inv.crash_point = step["crash"]["point"].str(); inv.crash_n = (int)step["crash"]["n"].num(1); }
  for (auto& e : step["editrun"].a) inv.editrun.push_back({(int)e["k"].num(1), e["f"].str()});
  int tokens = (int)step["tok"].num(-1);
  inv.use_jobserver = tokens >= 0;
  bool dry = step["dry"].boolean();
  int k = (int)step["k"].num(1);

  auto finish = [&](int code, const string& msg) {
    Emit("{\"e\":\"ChildExit\",\"code\":" + to_string(code) + ",\"msg\":" + JEsc(msg) + "}");
    fflush(NULL);
    _exit(0);
  };

  State state;
  ManifestParserOptions popts;
  ManifestParser parser(&state, &g_disk, popts);
  string err;
  if (!parser.Load("build.ninja", &err)) finish(1, "parse: " + err);

  BuildLog build_log;
  DepsLog deps_log;
  LogUser user(&state);
  string log_path = g_scratch + "/.ninja_log", deps_path = g_scratch + "/.ninja_deps";
  string warn;
  if (build_log.Load(log_path, &err) == LOAD_ERROR) finish(1, "loading build log: " + err);
  if (!err.empty()) { warn += err + ";"; err.clear(); }
  if (!dry && !build_log.OpenForWrite(log_path, user, &err)) finish(1, "opening build log: " + err);
  if (deps_log.Load(deps_path, &state, &err) == LOAD_ERROR) finish(1, "loading deps log: " + err);
  if (!err.empty()) { warn += err + ";"; err.clear(); }
  if (!dry && !deps_log.OpenForWrite(deps_path, &err)) finish(1, "opening deps log: " + err);
  Emit("{\"e\":\"Loaded\",\"blog\":" + BlogDump(build_log, &state) + ",\"dlog\":" + DlogDump(deps_log) + ",\"warn\":" + JEsc(warn) + "}");

  BuildConfig config;
  config.verbosity = BuildConfig::QUIET;
  config.parallelism = inv.j;
  config.failures_allowed = k > 0 ? k : INT_MAX;
  config.dry_run = dry;
  TraceStatus status;
  PrinterCapture cap;
  BuildConfig pconfig = config;
  pconfig.verbosity = step["verbose"].boolean() ? BuildConfig::VERBOSE : BuildConfig::NORMAL;
  std::unique_ptr<StatusPrinter> printer;
  if (step["printer"].t == JV::Str && !step["printer"].s.empty()) {
    if (!cap.Setup(step["printer"].s)) finish(1, "printer capture failed");
    string fmt = step["nstatus"].t == JV::Str ? step["nstatus"].s : string("");
    if (!fmt.empty()) setenv("NINJA_STATUS", fmt.c_str(), 1);
    printer.reset(new StatusPrinter(pconfig));
    status.real = printer.get();
    status.cap = &cap;
    Emit("{\"e\":\"Printer\",\"mode\":" + JEsc(cap.mode) + ",\"verbose\":" + (step["verbose"].boolean() ? "true" : "false") + ",\"fmt\":" + JEsc(fmt) + ",\"dry\":" + (dry ? "true" : "false") + "}");
  }
  int code = 0;
  string msg;
  {
    Builder builder(&state, config, &build_log, &deps_log, &g_disk, &status, 0);
    if (inv.use_jobserver && !dry) {
      Jobserver::Config jc;
      jc.mode = Jobserver::Config::kModePosixFifo;
      jc.path = g_scratch + "/fifo";
      string jerr;
      auto client = Jobserver::Client::Create(jc, &jerr);
      if (!client.get()) finish(1, "jobserver: " + jerr);
      builder.SetJobserverClient(std::move(client));
    }
    if (!dry) {
      ModelRunner* mr = new ModelRunner(&state);
      mr->jobserver = builder.jobserver_.get();
      builder.command_runner_.reset(mr);
    }
    vector<Node*> targets;
    bool ok = true;
    if (step["targets"].a.empty()) {
      targets = state.DefaultNodes(&err);
      if (!err.empty()) { ok = false; msg = err; }
    } else {
      for (auto& t : step["targets"].a) {
        Node* n = state.LookupNode(t.s);
        if (!n) { ok = false; msg = "unknown target '" + t.s + "'"; break; }
        targets.push_back(n);
      }
    }
    if (ok) {
      for (Node* t : targets) {
        if (!builder.AddTarget(t, &err)) {
          if (!err.empty()) { ok = false; msg = err; break; }
        }
      }
    }
    if (!ok) {
      code = 1;
      msg = "error: " + msg;
    } else {
      Emit("{\"e\":\"Scanned\"," + VerifAccess::PlanDump(builder, state) + "}");
      if (builder.AlreadyUpToDate()) {
        code = 0;
        msg = "nowork";
      } else {
        ExitStatus es = builder.Build(&err);
        code = (int)es;
        msg = es == ExitSuccess ? "ok" : "stopped: " + err;
        if (es != ExitSuccess && err.find("interrupted by user") != string::npos) code = 130;
      }
    }
    // console / pool bookkeeping visible at the end of the build
    string pools = "[";
    bool first = true;
    for (auto& p : state.pools_) {
      if (!first) pools += ",";
      first = false;
      pools += "{\"p\":" + JEsc(p.first) + ",\"use\":" + to_string(VerifAccess::PoolUse(p.second)) + ",\"delayed\":" + to_string(VerifAccess::PoolDelayed(p.second)) + "}";
    }
    Emit("{\"e\":\"PoolsAtEnd\",\"pools\":" + pools + "]}");
  }  // ~Builder: Cleanup, lock file removal
  finish(code, msg);
}

// Runs in the forked child: ninja -t clean / cleandead on the real Cleaner.
static void ChildClean(const JV& step) {
  State state;
  ManifestParserOptions popts;
  ManifestParser parser(&state, &g_disk, popts);
  string err;
  if (!parser.Load("build.ninja", &err)) {
    Emit("{\"e\":\"CleanDone\",\"status\":-1,\"count\":0,\"msg\":" + JEsc(err) + "}");
    _exit(0);
  }
  BuildConfig config;
  config.verbosity = BuildConfig::QUIET;
  config.dry_run = step["n"].boolean();
  Cleaner cleaner(&state, config, &g_disk);
  string mode = step["mode"].str();
  int status = 0;
  if (mode == "all") {
    status = cleaner.CleanAll(step["g"].boolean());
  } else if (mode == "targets") {
    vector<string> names = step["args"].strs();
    vector<char*> argv;
    for (auto& n : names) argv.push_back(const_cast<char*>(n.c_str()));
    status = cleaner.CleanTargets((int)argv.size(), argv.data());
  } else if (mode == "rules") {
    vector<string> names = step["args"].strs();
    vector<char*> argv;
    for (auto& n : names) argv.push_back(const_cast<char*>(n.c_str()));
    status = cleaner.CleanRules((int)argv.size(), argv.data());
  } else if (mode == "dead") {
    BuildLog build_log;
    DepsLog deps_log;
    build_log.Load(g_scratch + "/.ninja_log", &err);
    err.clear();
    deps_log.Load(g_scratch + "/.ninja_deps", &state, &err);
    status = cleaner.CleanDead(build_log.entries());
  }
  Emit("{\"e\":\"CleanDone\",\"status\":" + to_string(status) + ",\"count\":" + to_string(cleaner.cleaned_files_count()) + ",\"msg\":\"\"}");
  fflush(NULL);
  _exit(0);
}

// Child that re-reads both logs from disk and reports their meaning.
static void ChildDumpLogs() {
  State state;
  BuildLog build_log;
  DepsLog deps_log;
  string err, warn;
  LoadStatus a = build_log.Load(g_scratch + "/.ninja_log", &err);
  if (!err.empty()) { warn += err + ";"; err.clear(); }
  LoadStatus b = deps_log.Load(g_scratch + "/.ninja_deps", &state, &err);
  if (!err.empty()) { warn += err + ";"; err.clear(); }
  Emit("{\"e\":\"Logs\",\"blog\":" + BlogDump(build_log) + ",\"dlog\":" + DlogDump(deps_log) + ",\"st\":[" + to_string((int)a) + "," + to_string((int)b) + "],\"warn\":" + JEsc(warn) + "}");
  fflush(NULL);
  _exit(0);
}

// ---------------------------------------------------------------------------
// Parent side

struct ChildResult { int status = 0; bool crashed = false; int code = -1; string msg; vector<string> events; bool sig = false; };

static ChildResult RunChild(const function<void()>& body) {
  int fds[2];
  if (pipe(fds) != 0) { perror("pipe"); exit(2); }
  fflush(g_trace);
  pid_t pid = fork();
  if (pid < 0) { perror("fork"); exit(2); }
  if (pid == 0) {
    close(fds[0]);
    g_in_child = true;
    g_pipe = fds[1];
    g_disk.journal_fd = fds[1];
    alarm(60);
    body();
    _exit(0);
  }
  close(fds[1]);
  string buf;
  char tmp[65536];
  ssize_t n;
  while ((n = read(fds[0], tmp, sizeof tmp)) > 0 || (n < 0 && errno == EINTR))
    if (n > 0) buf.append(tmp, n);
  close(fds[0]);
  int st = 0;
  while (waitpid(pid, &st, 0) < 0 && errno == EINTR) {}
  ChildResult r;
  r.status = st;
  size_t pos = 0;
  while (pos < buf.size()) {
    size_t nl = buf.find('\n', pos);
    if (nl == string::npos) nl = buf.size();
    string line = buf.substr(pos, nl - pos);
    pos = nl + 1;
    if (line.compare(0, 5, "{\"j\":") == 0) {
      JV j = JParse(line);
      string k = j["j"].str();
      if (k == "w") { g_disk.files[j["n"].s] = MFile{j["m"].num(), j["c"].s, j["t"].boolean()}; g_disk.clock = max<int64_t>(g_disk.clock, j["m"].num()); }
      else if (k == "rm") g_disk.files.erase(j["n"].s);
      else if (k == "dir") g_disk.dirs.insert(j["n"].s);
      else if (k == "rmdir") g_disk.dirs.erase(j["n"].s);
      else if (k == "clk") g_disk.clock = max<int64_t>(g_disk.clock, j["v"].num());
      else if (k == "ch") { g_ch.taken.push_back((int)j["c"].num()); g_ch.arity.push_back((int)j["a"].num()); g_ch.rng = (unsigned)j["r"].num(); }
    } else if (line.compare(0, 17, "{\"e\":\"ChildExit\",") == 0) {
      JV j = JParse(line);
      r.code = (int)j["code"].num();
      r.msg = j["msg"].str();
    } else if (!line.empty()) {
      r.events.push_back(line);
    }
  }
  if (WIFEXITED(st) && WEXITSTATUS(st) == 99) r.crashed = true;
  else if (WIFSIGNALED(st)) r.sig = true;
  return r;
}

static void SetupFifo(int tokens) {
  string p = g_scratch + "/fifo";
  unlink(p.c_str());
  if (tokens < 0) return;
  if (mkfifo(p.c_str(), 0600) != 0) { perror("mkfifo"); exit(2); }
}

static int g_fifo_keep_r = -1, g_fifo_keep_w = -1;
static void FillFifo(int tokens) {
  string p = g_scratch + "/fifo";
  if (g_fifo_keep_r >= 0) { close(g_fifo_keep_r); close(g_fifo_keep_w); g_fifo_keep_r = g_fifo_keep_w = -1; }
  SetupFifo(tokens);
  if (tokens < 0) return;
  g_fifo_keep_r = open(p.c_str(), O_RDONLY | O_NONBLOCK);
  g_fifo_keep_w = open(p.c_str(), O_WRONLY | O_NONBLOCK);
  for (int i = 0; i < tokens; ++i) { char c = '+'; ssize_t w = write(g_fifo_keep_w, &c, 1); (void)w; }
}
static int DrainCount() {
  if (g_fifo_keep_r < 0) return -1;
  char buf[256];
  ssize_t n = read(g_fifo_keep_r, buf, sizeof buf);
  if (n < 0) n = 0;
  if (n > 0) { ssize_t w = write(g_fifo_keep_w, buf, n); (void)w; }
  return (int)n;
}

static string GraphJson(const Scenario& sc) {
  // current versions of the statements (the hist field is dropped)
  string r = "{\"srcs\":" + JStrs(sc.srcs) + ",\"pools\":[";
  for (size_t i = 0; i < sc.pools.size(); ++i) {
    if (i) r += ",";
    r += "{\"name\":" + JEsc(sc.pools[i].name) + ",\"depth\":" + to_string(sc.pools[i].depth) + "}";
  }
  r += "],\"stmts\":[";
  for (size_t i = 0; i < sc.stmts.size(); ++i) {
    const Stmt& s = sc.stmts[i];
    if (i) r += ",";
    r += "{\"id\":" + to_string(s.id) + ",\"outs\":" + JStrs(s.outs) + ",\"iouts\":" + JStrs(s.iouts) + ",\"ex\":" + JStrs(s.ex) +
         ",\"im\":" + JStrs(s.im) + ",\"oo\":" + JStrs(s.oo) + ",\"val\":" + JStrs(s.val) + ",\"hdrs\":" + JStrs(s.hdrs) +
         ",\"phony\":" + (s.phony ? "true" : "false") + ",\"restat\":" + (s.restat ? "true" : "false") +
         ",\"gen\":" + (s.gen ? "true" : "false") + ",\"rsp\":" + (s.rsp ? "true" : "false") + ",\"deps\":" + JEsc(s.deps) +
         ",\"pool\":" + JEsc(s.pool) + ",\"dd\":" + JEsc(s.dd) + ",\"ddi\":" + JStrs(s.ddi) + ",\"ddo\":" + JStrs(s.ddo) +
         ",\"ddr\":" + (s.ddr ? "true" : "false") + ",\"mkdd\":" + JEsc(s.mkdd) + ",\"ver\":" + to_string(s.ver) +
         ",\"rspver\":" + to_string(s.rspver) + ",\"vstr\":" + JEsc((s.gen ? string("gen") : "v" + to_string(s.ver)) + (s.rsp ? "|" + RspContent(s) : string(""))) +
         ",\"en\":" + JEsc("e" + to_string(s.id)) + ",\"rsppath\":" + JEsc(s.rsp ? RspPath(s) : string("")) + ",\"rsptxt\":" + JEsc(s.rsp ? RspContent(s) : "") + ",\"ddtxt\":" + JEsc(s.mkdd.empty() ? "" : DdText(sc, s.mkdd)) +
         (s.hsel.empty() ? string("") : ",\"hsel\":" + JEsc(s.hsel) + ",\"hdrs2\":" + JStrs(s.hdrs2)) + (s.split ? ",\"split\":true" : "") + "}";
  }
  return r + "]}";
}

static string MsgClass(const string& m) {
  auto has = [&](const char* x) { return m.find(x) != string::npos; };
  if (m == "ok" || m == "nowork") return m;
  if (has("dependency cycle")) return "cycle";
  if (has("missing and no known rule to make it")) return "missing";
  if (m.compare(0, 6, "parse:") == 0) return "parse";
  if (has("interrupted by user")) return "interrupted";
  if (has("stuck")) return "stuck";
  if (has("subcommand failed") || has("subcommands failed")) return "failed";
  if (has("cannot make progress due to previous errors")) return "noprogress";
  if (has("loading '") || has("dyndep")) return "dyndep";
  return "other";
}

// "dependency cycle: a -> b -> a" -> ["a","b","a"]
static string CyclePath(const string& m) {
  size_t p = m.find("dependency cycle: ");
  if (p == string::npos) return "[]";
  string rest = m.substr(p + 18);
  size_t br = rest.find(" [-w");
  if (br != string::npos) rest = rest.substr(0, br);
  while (!rest.empty() && (rest.back() == '\n' || rest.back() == ' ')) rest.pop_back();
  vector<string> parts;
  size_t pos = 0;
  while (true) {
    size_t a = rest.find(" -> ", pos);
    if (a == string::npos) { parts.push_back(rest.substr(pos)); break; }
    parts.push_back(rest.substr(pos, a - pos));
    pos = a + 4;
  }
  return JStrs(parts);
}

static void WriteManifest(Scenario& sc) { g_disk.Put("build.ninja", RenderManifest(sc), false); }

// One full execution of a scenario's history with the current chooser.
// Pads both logs with copies of their own records, in order, until the next open recompacts them (build log: more than
// 100 records and 3 per output; deps log: more than 1000 deps records and 3 per output).  The meaning does not change.
static void InflateLogs(const string& blog, const string& dlog) {
  {
    ifstream in(blog, ios::binary);
    if (in) {
      string all((istreambuf_iterator<char>(in)), istreambuf_iterator<char>());
      in.close();
      size_t nl = all.find('\n');
      if (nl != string::npos && nl + 1 < all.size()) {
        string recs = all.substr(nl + 1);
        size_t cnt = std::count(recs.begin(), recs.end(), '\n');
        if (cnt > 0 && recs.back() == '\n') {
          ofstream out(blog, ios::binary | ios::app);
          for (size_t n = 0; n * cnt <= std::max<size_t>(100, 3 * cnt) + cnt; ++n) out << recs;
        }
      }
    }
  }
  {
    ifstream in(dlog, ios::binary);
    if (in) {
      string b((istreambuf_iterator<char>(in)), istreambuf_iterator<char>());
      in.close();
      size_t pos = 16;
      string recs;
      size_t cnt = 0;
      while (pos + 4 <= b.size()) {
        uint32_t size = (unsigned char)b[pos] | ((unsigned char)b[pos + 1] << 8) | ((unsigned char)b[pos + 2] << 16) | ((uint32_t)(unsigned char)b[pos + 3] << 24);
        bool isdeps = size >> 31;
        size &= 0x7fffffffu;
        if (pos + 4 + size > b.size()) break;
        if (isdeps) { recs += b.substr(pos, 4 + size); ++cnt; }
        pos += 4 + size;
      }
      if (cnt > 0 && pos == b.size()) {
        ofstream out(dlog, ios::binary | ios::app);
        for (size_t n = 0; n * cnt <= std::max<size_t>(1000, 3 * cnt) + cnt; ++n) out << recs;
      }
    }
  }
}

static void RunOnce(Scenario sc /* by value: versions change */, long run_no, int tw = 0) {
  g_disk = ModelDisk();
  g_sc = &sc;
  g_by_out.clear();
  for (auto& s : sc.stmts) for (auto& o : s.AllOuts()) g_by_out[o] = &s;
  unlink((g_scratch + "/.ninja_log").c_str());
  unlink((g_scratch + "/.ninja_deps").c_str());
  unlink((g_scratch + "/.ninja_log.recompact").c_str());
  unlink((g_scratch + "/.ninja_deps.recompact").c_str());
  map<string, int> srcver;
  for (auto& s : sc.srcs) {
    srcver[s] = 1;
    size_t sl = s.rfind('/');
    if (sl != string::npos) g_disk.dirs.insert(s.substr(0, sl));
    g_disk.Put(s, Term(s, "1", {}), true);
  }
  // dyndep files that are sources
  for (auto& s : sc.stmts)
    if (!s.dd.empty() && std::find(sc.srcs.begin(), sc.srcs.end(), s.dd) != sc.srcs.end())
      g_disk.Put(s.dd, DdText(sc, s.dd), false);
  for (auto& s : sc.stmts) if (s.badrspdir) g_disk.unwritable_dirs.insert("nodir");
  WriteManifest(sc);
  Emit("{\"e\":\"Reset\",\"sc\":" + JEsc(sc.id) + ",\"run\":" + to_string(run_no) + ",\"tw\":" + to_string(tw) + ",\"twk\":" + JEsc(sc.twin) +
       ",\"ddbad\":" + (sc.raw["ddbad"].t == JV::Arr ? JDump(sc.raw["ddbad"]) : string("[]")) +
       ",\"g\":" + GraphJson(sc) + ",\"tree\":" + g_disk.Tree() + "}");

  for (auto& step : sc.hist.a) {
    string op = step["op"].str();
    if (op == "build") {
      int tokens = (int)step["tok"].num(-1);
      FillFifo(tokens);
      Emit("{\"e\":\"Invoke\",\"targets\":" + JStrs(step["targets"].strs()) + ",\"j\":" + to_string(step["j"].num(1)) + ",\"k\":" +
           to_string(step["k"].num(1)) + ",\"dry\":" + (step["dry"].boolean() ? "true" : "false") + ",\"tok\":" + to_string(tokens) +
           ",\"fail\":" + JDump(step["fail"].t == JV::Arr ? step["fail"] : JParse("[]")) + ",\"intr\":" + to_string(step["intr"].num(-1)) +
           ",\"editrun\":" + (step["editrun"].a.empty() ? "false" : "true") + ",\"tree\":" + g_disk.Tree() + "}");
      ChildResult r = RunChild([&] { ChildInvocation(step); });
      for (auto& e : r.events) Emit(e);
      int left = DrainCount();
      ChildResult lg = RunChild([&] { ChildDumpLogs(); });
      string logs = lg.events.empty() ? "{\"e\":\"Logs\",\"blog\":[],\"dlog\":[],\"st\":[-1,-1],\"warn\":\"dump failed\"}" : lg.events[0];
      if (r.crashed) {
        Emit("{\"e\":\"Died\",\"tree\":" + g_disk.Tree() + ",\"logs\":" + logs + "}");
      } else if (r.sig || r.code < 0) {
        Emit("{\"e\":\"Abnormal\",\"status\":" + to_string(r.status) + ",\"tree\":" + g_disk.Tree() + "}");
      } else {
        Emit("{\"e\":\"Exit\",\"code\":" + to_string(r.code) + ",\"msg\":" + JEsc(r.msg) + ",\"mc\":" + JEsc(MsgClass(r.msg)) + ",\"cyc\":" + CyclePath(r.msg) + ",\"fifo\":" + to_string(left) +
             ",\"tree\":" + g_disk.Tree() + ",\"logs\":" + logs + "}");
      }
      continue;
    }
    if (op == "clean") {
      string pre = g_disk.Tree();
      set<string> before;
      for (auto& f : g_disk.files) before.insert(f.first);
      ChildResult r = RunChild([&] { ChildClean(step); });
      vector<string> removed;
      for (auto& b : before) if (!g_disk.files.count(b)) removed.push_back(b);
      string done = r.events.empty() ? "{\"e\":\"CleanDone\",\"status\":-2,\"count\":0,\"msg\":\"crashed\"}" : r.events.back();
      ChildResult lg = RunChild([&] { ChildDumpLogs(); });
      string logs = lg.events.empty() ? "{\"e\":\"Logs\",\"blog\":[],\"dlog\":[],\"st\":[-1,-1],\"warn\":\"dump failed\"}" : lg.events[0];
      Emit("{\"e\":\"Clean\",\"mode\":" + JEsc(step["mode"].str()) + ",\"args\":" + JStrs(step["args"].strs()) + ",\"gflag\":" + (step["g"].boolean() ? "true" : "false") +
           ",\"n\":" + (step["n"].boolean() ? "true" : "false") + ",\"pre\":" + pre + ",\"removed\":" + JStrs(removed) + ",\"done\":" + done +
           ",\"logs\":" + logs + ",\"g\":" + GraphJson(sc) + ",\"tree\":" + g_disk.Tree() + "}");
      continue;
    }
    // Environment actions between invocations
    string extra;
    if (op == "edit") {
      string f = step["f"].str();
      bool isdd = false;
      for (auto& s : sc.stmts) if (s.dd == f) isdd = true;
      if (isdd) g_disk.Put(f, DdText(sc, f), false);   // a dyndep file that is a source keeps a valid content
      else g_disk.Put(f, Term(f, to_string(++srcver[f]), {}), true);
    } else if (op == "touch") {
      string f = step["f"].str();
      auto it = g_disk.files.find(f);
      if (it != g_disk.files.end()) g_disk.Put(f, it->second.content, it->second.term);
    } else if (op == "del") {
      g_disk.files.erase(step["f"].str());
    } else if (op == "ver") {
      for (auto& s : sc.stmts) if (s.id == step["s"].num()) ++s.ver;
      WriteManifest(sc);
    } else if (op == "rspver") {
      for (auto& s : sc.stmts) if (s.id == step["s"].num()) { if (step["to"].t == JV::Num) s.rspver = (int)step["to"].num(); else ++s.rspver; }
      WriteManifest(sc);
    } else if (op == "verback") {
      // the command line and response file the statement had at first
      for (auto& s : sc.stmts) if (s.id == step["s"].num()) { s.ver = 1; s.rspver = 1; }
      WriteManifest(sc);
    } else if (op == "inflate") {
      InflateLogs(g_scratch + "/.ninja_log", g_scratch + "/.ninja_deps");
    } else if (op == "droplog") {
      unlink((g_scratch + "/.ninja_log").c_str());
    } else if (op == "dropdeps") {
      unlink((g_scratch + "/.ninja_deps").c_str());
    } else if (op == "setstmts") {
      // manifest variant: replace the statement list
      sc.stmts.clear();
      for (auto& s : step["stmts"].a) sc.stmts.push_back(ParseStmt(s));
      g_by_out.clear();
      for (auto& s : sc.stmts) for (auto& o : s.AllOuts()) g_by_out[o] = &s;
      WriteManifest(sc);
    }
    Emit("{\"e\":\"Env\",\"op\":" + JEsc(op) + ",\"f\":" + JEsc(step["f"].str()) + ",\"s\":" + to_string(step["s"].num()) +
         ",\"g\":" + GraphJson(sc) + ",\"tree\":" + g_disk.Tree() + "}");
  }
  {
    string c = "[";
    for (size_t i = 0; i < g_ch.taken.size(); ++i) { if (i) c += ","; c += to_string(g_ch.taken[i]); }
    Emit("{\"e\":\"EndRun\",\"choices\":" + c + "]}");
  }
  g_sc = nullptr;
}

// The same scenario with the discovered information written into the manifest.
static Scenario TwinOf(const Scenario& sc) {
  Scenario t = sc;
  for (auto& s : sc.stmts)   // the dyndep files keep their content
    if (!s.dd.empty() && !t.ddtext.count(s.dd)) t.ddtext[s.dd] = DdText(sc, s.dd);
  for (auto& s : t.stmts) {
    if (sc.twin == "deps" && !s.deps.empty()) {
      s.im.insert(s.im.end(), s.hdrs.begin(), s.hdrs.end());
      s.hdrs.clear();
      s.deps.clear();
    }
    if (sc.twin == "dyn" && !s.dd.empty()) {
      s.im.insert(s.im.end(), s.ddi.begin(), s.ddi.end());
      s.iouts.insert(s.iouts.end(), s.ddo.begin(), s.ddo.end());
      s.restat = s.restat || s.ddr;
      s.ddi.clear(); s.ddo.clear(); s.ddr = false; s.dd.clear();
    }
  }
  // manifest variants inside the history get the same treatment
  return t;
}

int main(int argc, char** argv) {
  if (argc < 3) {
    fprintf(stderr, "usage: h1 SCENARIOS.ndjson OUT.ndjson [--maxruns N] [--seed S] [--slice I/N] [--only ID] [--choices c,c,c]\n");
    return 2;
  }
  string in = argv[1], out = argv[2];
  long maxruns = 64;
  unsigned seed = 1;
  int slice_i = 0, slice_n = 1;
  string only;
  vector<int> fixed;
  bool has_fixed = false;
  for (int i = 3; i < argc; ++i) {
    string a = argv[i];
    if (a == "--maxruns" && i + 1 < argc) maxruns = atol(argv[++i]);
    else if (a == "--seed" && i + 1 < argc) seed = (unsigned)atol(argv[++i]);
    else if (a == "--slice" && i + 1 < argc) sscanf(argv[++i], "%d/%d", &slice_i, &slice_n);
    else if (a == "--only" && i + 1 < argc) only = argv[++i];
    else if (a == "--choices" && i + 1 < argc) {
      has_fixed = true;
      char* p = argv[++i];
      while (*p) { fixed.push_back((int)strtol(p, &p, 10)); if (*p == ',') ++p; }
    }
  }
  char tmpl[] = "/dev/shm/h1-XXXXXX";
  if (!mkdtemp(tmpl)) { perror("mkdtemp"); return 2; }
  g_scratch = tmpl;
  g_trace = fopen(out.c_str(), "wb");
  if (!g_trace) { perror("open trace"); return 2; }
  static char tbuf[1 << 20];
  setvbuf(g_trace, tbuf, _IOFBF, sizeof tbuf);
  signal(SIGPIPE, SIG_IGN);

  FILE* f = fopen(in.c_str(), "rb");
  if (!f) { perror("open scenarios"); return 2; }
  string line;
  char* lbuf = nullptr; size_t lcap = 0; ssize_t ll;
  long idx = 0, total_runs = 0, scen = 0, capped = 0;
  while ((ll = getline(&lbuf, &lcap, f)) > 0) {
    line.assign(lbuf, ll);
    if (line.size() < 3) continue;
    long my = idx++;
    if (my % slice_n != slice_i) continue;
    bool ok;
    JV j = JParse(line, &ok);
    if (!ok) { fprintf(stderr, "bad scenario line %ld\n", my); return 2; }
    Scenario sc = ParseScenario(j);
    if (!only.empty() && sc.id != only) continue;
    ++scen;
    // stateless DFS over the choice points
    vector<int> prefix = fixed;
    long runs = 0;
    if (!sc.twin.empty()) {
      g_ch = Chooser();
      RunOnce(TwinOf(sc), -1, 1);
      ++total_runs;
    }
    while (true) {
      g_ch = Chooser();
      g_ch.prefix = prefix;
      g_ch.rng = seed * 2654435761u + (unsigned)my * 40503u + (unsigned)runs;
      RunOnce(sc, runs, sc.twin.empty() ? 0 : 2);
      ++runs; ++total_runs;
      if (has_fixed) break;
      // next prefix: increment the last choice that can be incremented
      vector<int> t = g_ch.taken, a = g_ch.arity;
      int i = (int)t.size() - 1;
      while (i >= 0 && t[i] + 1 >= a[i]) --i;
      if (i < 0) break;
      t.resize(i + 1);
      t[i]++;
      prefix = t;
      if (runs >= maxruns) { ++capped; break; }
    }
  }
  fclose(f);
  fclose(g_trace);
  string cmd = "rm -rf " + g_scratch;
  int rc = system(cmd.c_str());
  (void)rc;
  fprintf(stderr, "h1: scenarios=%ld executions=%ld capped=%ld\n", scen, total_runs, capped);
  return 0;
}
