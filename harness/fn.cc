// fn: function-level harness (C12 lexer, C14, C15, C16).
//
//   fn check <fn> <vectors.ndjson> <mismatches.ndjson>
//        every line {"in":..., "exp":...} was computed by TLC from the TLA+
//        reference; run the real function and report disagreements
//        (spec -> code direction, one implementation test per enumerated input)
//   fn gen <fn> <seed> <n> <out.ndjson>
//        seeded random inputs through the real function, recorded as
//        {"in":..., "out":...} events for trace validation (code -> spec)
//
// Byte strings travel as JSON arrays of integers.

#include <stdio.h>
#include <stdlib.h>
#include <string.h>

#include <map>
#include <string>
#include <vector>

#include "depfile_parser.h"
#include "eval_env.h"
#include "manifest_parser.h"
#include "disk_interface.h"
#include "graph.h"
#include "state.h"
#include "lexer.h"
#include "eval_env.h"
#include "util.h"

#include "json.h"

using namespace std;

static string Bytes(const JV& a) {
  string s;
  for (auto& x : a.a) s.push_back((char)x.n);
  return s;
}
static string JBytes(const string& s) {
  string r = "[";
  for (size_t i = 0; i < s.size(); ++i) { if (i) r += ","; r += to_string((unsigned char)s[i]); }
  return r + "]";
}
static string JBytesList(const vector<string>& v) {
  string r = "[";
  for (size_t i = 0; i < v.size(); ++i) { if (i) r += ","; r += JBytes(v[i]); }
  return r + "]";
}

struct Rng {
  unsigned long long s;
  explicit Rng(unsigned long long seed) : s(seed * 6364136223846793005ULL + 1442695040888963407ULL) {}
  unsigned next() { s = s * 6364136223846793005ULL + 1442695040888963407ULL; return (unsigned)(s >> 33); }
  unsigned below(unsigned n) { return next() % n; }
};

// -- canon -------------------------------------------------------------------
// All entry points must agree: the std::string overload, and the (char*, len)
// overload on a buffer that is NOT NUL terminated (guard bytes behind it must
// stay intact).
static string Canon(const string& in, string* problem) {
  string a = in;
  uint64_t bits = 0;
  CanonicalizePath(&a, &bits);
  vector<char> buf(in.size() + 8, '#');
  memcpy(buf.data(), in.data(), in.size());
  size_t len = in.size();
  uint64_t bits2 = 0;
  CanonicalizePath(buf.data(), &len, &bits2);
  string b(buf.data(), len);
  if (a != b) *problem = "overloads disagree";
  // the in-place rewrite may use at most max(len,1) bytes ("" stays "", "a/.." -> ".")
  for (size_t i = max<size_t>(in.size(), 1); i < buf.size(); ++i)
    if (buf[i] != '#') *problem = "wrote behind the end of the buffer";
  if (bits != 0 || bits2 != 0) *problem = "slash bits set on a POSIX build";
  return a;
}

static string RandomPath(Rng& r) {
  static const char* comps[] = {"a", "b", "..", ".", "", "foo", "x.y", "...", "..a", "a..", "\x01", "\xff\xfe", " ", "a b", "-", "~"};
  string p;
  if (r.below(3) == 0) p += "/";
  if (r.below(4) == 0) {
    // descend D levels, climb back C levels with "..", a few times: depths and climbs around the powers of two (fixed-size
    // tables of component positions), climbs that stop short of, reach and pass the start
    static const int marks[] = {1, 2, 3, 7, 8, 9, 31, 32, 33, 63, 64, 65, 66, 127, 128, 129, 130, 255, 256, 257};
    int phases = 1 + r.below(3);
    bool first = true;
    for (int ph = 0; ph < phases; ++ph) {
      int d = r.below(3) == 0 ? 1 + r.below(300) : marks[r.below(20)];
      int c = r.below(4) == 0 ? r.below(d + 4) : std::max(0, d - 2 + (int)r.below(5));
      for (int i = 0; i < d; ++i) { if (!first) p += "/"; first = false; p += "d" + std::to_string(i % 10); if (r.below(16) == 0) p += "/."; }
      for (int i = 0; i < c; ++i) { p += "/.."; if (r.below(16) == 0) p += "/"; }
    }
    if (r.below(2)) p += "/x";
    return p;
  }
  int n = r.below(4) == 0 ? 100 + r.below(400) : 1 + r.below(12);
  for (int i = 0; i < n; ++i) {
    if (i) p += "/";
    if (r.below(8) == 0) {
      int l = 1 + r.below(6);
      for (int k = 0; k < l; ++k) { char c = (char)(1 + r.below(255)); if (c == '/') c = '_'; p.push_back(c); }
    } else {
      p += comps[r.below(16)];
    }
  }
  if (r.below(4) == 0) p += "/";
  return p;
}

// -- shell quoting -------------------------------------------------------------
static string Quote(const string& in) {
  string out;
  GetShellEscapedString(in, &out);
  return out;
}

// -- $in / $out / $in_newline through the real Edge/EdgeEnv --------------------------
// names are used once as explicit inputs and once as explicit outputs of a
// build statement whose command is "$in", "$out", "$in_newline".
static bool Expand(const vector<string>& names, string* in_sp, string* out_sp, string* in_nl, string* err) {
  State state;
  Rule* rule = new Rule("r");
  EvalString cmd;
  cmd.AddSpecial("in");
  rule->AddBinding("command", cmd);
  EvalString rc;
  rc.AddSpecial("in_newline");
  rule->AddBinding("rspfile_content", rc);
  EvalString d;
  d.AddSpecial("out");
  rule->AddBinding("description", d);
  state.bindings_.AddRule(std::unique_ptr<const Rule>(rule));
  Edge* e1 = state.AddEdge(rule);
  for (auto& n : names) state.AddIn(e1, n, 0);
  if (!state.AddOut(e1, "the-output", 0, err)) return false;
  Edge* e2 = state.AddEdge(rule);
  state.AddIn(e2, "the-input", 0);
  for (size_t i = 0; i < names.size(); ++i)   // distinct from the input nodes and from each other
    if (!state.AddOut(e2, "o" + to_string(i) + "-" + names[i], 0, err)) return false;
  *in_sp = e1->EvaluateCommand();
  *in_nl = e1->GetBinding("rspfile_content");
  *out_sp = e2->GetBinding("description");
  return true;
}

// -- manifest ----------------------------------------------------------------------
struct MapReader : public FileReader {
  std::map<string, string> files;
  Status ReadFile(const string& path, string* contents, string* err) override {
    auto it = files.find(path);
    if (it == files.end()) { *err = "No such file or directory"; return NotFound; }
    *contents = it->second;
    return Okay;
  }
};
static string JL(const vector<string>& v) { return JStrs(v); }
static string Manifest(const JV& jfiles) {
  MapReader rd;
  for (auto& p : jfiles.o) rd.files[p.first] = p.second.s;
  State state;
  ManifestParser parser(&state, &rd);
  string err;
  if (!parser.Load("build.ninja", &err)) return "{\"ok\":false,\"err\":" + JEsc(err) + "}";
  string edges = "[";
  for (size_t k = 0; k < state.edges_.size(); ++k) {
    Edge* e = state.edges_[k];
    vector<string> outs, iouts, ex, im, oo, vals;
    for (size_t i = 0; i < e->outputs_.size(); ++i) (e->is_implicit_out(i) ? iouts : outs).push_back(e->outputs_[i]->path());
    for (size_t i = 0; i < e->inputs_.size(); ++i) (e->is_order_only(i) ? oo : e->is_implicit(i) ? im : ex).push_back(e->inputs_[i]->path());
    for (Node* n : e->validations_) vals.push_back(n->path());
    if (k) edges += ",";
    edges += "{\"outs\":" + JL(outs) + ",\"iouts\":" + JL(iouts) + ",\"ex\":" + JL(ex) + ",\"im\":" + JL(im) + ",\"oo\":" + JL(oo) + ",\"vals\":" + JL(vals) +
             ",\"rule\":" + JEsc(e->rule().name()) + ",\"pool\":" + JEsc(e->pool()->name()) + ",\"command\":" + JEsc(e->GetBinding("command")) +
             ",\"description\":" + JEsc(e->GetBinding("description")) + ",\"depfile\":" + JEsc(e->GetUnescapedDepfile()) + ",\"rspfile\":" + JEsc(e->GetUnescapedRspfile()) +
             ",\"rspfile_content\":" + JEsc(e->GetBinding("rspfile_content")) + ",\"restat\":" + (e->GetBindingBool("restat") ? "true" : "false") +
             ",\"generator\":" + (e->GetBindingBool("generator") ? "true" : "false") + ",\"deps\":" + JEsc(e->GetBinding("deps")) +
             ",\"dyndep\":" + JEsc(e->dyndep_ ? e->dyndep_->path() : string("")) + "}";
  }
  edges += "]";
  vector<string> defs;
  for (Node* n : state.defaults_) defs.push_back(n->path());
  string pools = "[";
  bool first = true;
  for (auto& p : state.pools_) {
    if (p.first.empty() || p.first == "console") continue;
    if (!first) pools += ",";
    first = false;
    pools += "{\"name\":" + JEsc(p.first) + ",\"depth\":" + to_string(p.second->depth()) + "}";
  }
  pools += "]";
  // what a plain `ninja` builds: the default statements' targets, else the outputs nothing consumes
  string derr;
  vector<string> builds;
  for (Node* n : state.DefaultNodes(&derr)) builds.push_back(n->path());
  if (!derr.empty()) { builds.clear(); builds.push_back("<no root nodes>"); }
  return "{\"ok\":true,\"err\":\"\",\"edges\":" + edges + ",\"defaults\":" + JL(defs) + ",\"pools\":" + pools + ",\"builds\":" + JL(builds) + "}";
}

// -- depfile ---------------------------------------------------------------------
// result: {"ok":bool,"outs":[bytes...],"ins":[bytes...]}
static string Depfile(const string& in) {
  string content = in;
  DepfileParser p;
  string err;
  bool ok = p.Parse(&content, &err);
  vector<string> outs, ins;
  for (auto& o : p.outs_) outs.push_back(o.AsString());
  for (auto& i : p.ins_) ins.push_back(i.AsString());
  if (!ok) return "{\"ok\":false,\"outs\":[],\"ins\":[]}";
  return string("{\"ok\":true,\"outs\":") + JBytesList(outs) + ",\"ins\":" + JBytesList(ins) + "}";
}

// -- Lexer (spec/Lexer.tla) ---------------------------------------------------------------------
struct AngleEnv : public Env {
  string LookupVariable(StringPiece var) override { return "<" + var.AsString() + ">"; }
};
static string LexResult(bool ok, const vector<string>& strs, const string& next) {
  if (!ok) return "{\"ok\":false,\"strs\":[],\"next\":\"\"}";
  return string("{\"ok\":true,\"strs\":") + JBytesList(strs) + ",\"next\":" + JEsc(next) + "}";
}
static void LexStart(Lexer* lx, const string& in) {
  lx->Start("in", in);
  lx->manifest_version_major = 1;
  lx->manifest_version_minor = 14;
}
static string LexValue(const string& in) {
  Lexer lx;
  LexStart(&lx, in);
  AngleEnv env;
  EvalString es;
  string err;
  if (!lx.ReadVarValue(&es, &err)) return LexResult(false, {}, "");
  vector<string> strs{es.Evaluate(&env)};
  return LexResult(true, strs, Lexer::TokenName(lx.ReadToken()));
}
static string LexPaths(const string& in) {
  Lexer lx;
  LexStart(&lx, in);
  AngleEnv env;
  vector<string> strs;
  string err;
  for (;;) {
    EvalString es;
    if (!lx.ReadPath(&es, &err)) return LexResult(false, {}, "");
    if (es.empty()) break;
    strs.push_back(es.Evaluate(&env));
  }
  return LexResult(true, strs, Lexer::TokenName(lx.ReadToken()));
}
static string LexExp(const JV& e) {
  if (!e["ok"].boolean()) return LexResult(false, {}, "");
  vector<string> strs;
  for (auto& s : e["strs"].a) strs.push_back(Bytes(s));
  return LexResult(true, strs, e["next"].str());
}

int main(int argc, char** argv) {
  if (argc < 2) return 2;
  string mode = argv[1];
  if (mode == "check" && argc >= 5) {
    string fn = argv[2];
    FILE* f = fopen(argv[3], "rb");
    FILE* out = fopen(argv[4], "wb");
    if (!f || !out) { perror("open"); return 2; }
    char* lbuf = nullptr; size_t cap = 0; ssize_t ll;
    long n = 0, bad = 0;
    while ((ll = getline(&lbuf, &cap, f)) > 0) {
      string line(lbuf, ll);
      if (line.size() < 3) continue;
      bool ok;
      JV j = JParse(line, &ok);
      if (!ok) { fprintf(stderr, "bad vector line\n"); return 2; }
      ++n;
      string problem, got, exp;
      if (fn == "canon") {
        got = JBytes(Canon(Bytes(j["in"]), &problem));
        exp = JBytes(Bytes(j["exp"]));
      } else if (fn == "quote") {
        got = JBytes(Quote(Bytes(j["in"])));
        exp = JBytes(Bytes(j["exp"]));
      } else if (fn == "expand") {
        vector<string> names;
        for (auto& n : j["names"].a) names.push_back(Bytes(n));
        string a, b, c, err;
        if (!Expand(names, &a, &b, &c, &err)) problem = "AddOut failed: " + err;
        // $out was evaluated on "out-"+name: the reference prefix is computed by quoting rules:
        // compare $in and $in_newline exactly, and $out after removing the harmless prefix is
        // checked by the caller through sh.
        bool drift = a != Bytes(j["sp"]) || c != Bytes(j["nl"]);
        if (drift) ++bad;
        fprintf(out, "{\"names\":%s,\"sp\":%s,\"nl\":%s,\"out\":%s,\"drift\":%s,\"problem\":%s}\n", JDump(j["names"]).c_str(),
                JBytes(a).c_str(), JBytes(c).c_str(), JBytes(b).c_str(), drift ? "true" : "false", JEsc(problem).c_str());
        continue;
      } else if (fn == "lex") {
        // spec/Lexer.tla: value context and path context of the real Lexer
        string in = Bytes(j["in"]);
        string gv = LexValue(in), gp = LexPaths(in);
        string ev = LexExp(j["value"]), ep = LexExp(j["paths"]);
        if (gv != ev || gp != ep) {
          ++bad;
          fprintf(out, "{\"in\":%s,\"exp\":{\"value\":%s,\"paths\":%s},\"got\":{\"value\":%s,\"paths\":%s},\"problem\":\"\"}\n", JBytes(in).c_str(), ev.c_str(), ep.c_str(), gv.c_str(), gp.c_str());
        }
        continue;
      } else if (fn == "depfile") {
        got = Depfile(Bytes(j["in"]));
        const JV& e = j["exp"];
        vector<string> outs, ins;
        for (auto& o : e["outs"].a) outs.push_back(Bytes(o));
        for (auto& i : e["ins"].a) ins.push_back(Bytes(i));
        exp = e["ok"].boolean() ? string("{\"ok\":true,\"outs\":") + JBytesList(outs) + ",\"ins\":" + JBytesList(ins) + "}"
                                : "{\"ok\":false,\"outs\":[],\"ins\":[]}";
      } else {
        fprintf(stderr, "unknown fn %s\n", fn.c_str());
        return 2;
      }
      if (got != exp || !problem.empty()) {
        ++bad;
        fprintf(out, "{\"in\":%s,\"exp\":%s,\"got\":%s,\"problem\":%s}\n", JBytes(Bytes(j["in"])).c_str(), exp.c_str(), got.c_str(), JEsc(problem).c_str());
      }
    }
    fclose(out);
    fprintf(stderr, "fn check %s: vectors=%ld mismatches=%ld\n", fn.c_str(), n, bad);
    return 0;
  }
  if (mode == "manifest" && argc >= 4) {
    // every line {"files":{name:text}}: parse with the real ManifestParser, dump the graph or the error
    FILE* f = fopen(argv[2], "rb");
    FILE* out = fopen(argv[3], "wb");
    if (!f || !out) { perror("open"); return 2; }
    char* lbuf = nullptr; size_t cap = 0; ssize_t ll;
    long n = 0;
    while ((ll = getline(&lbuf, &cap, f)) > 0) {
      string line(lbuf, ll);
      if (line.size() < 3) continue;
      bool ok;
      JV j = JParse(line, &ok);
      if (!ok) { fprintf(stderr, "bad line\n"); return 2; }
      fprintf(out, "%s\n", Manifest(j["files"]).c_str());
      ++n;
    }
    fclose(out);
    fprintf(stderr, "fn manifest: programs=%ld\n", n);
    return 0;
  }
  if (mode == "gen" && argc >= 6) {
    string fn = argv[2];
    Rng r(strtoull(argv[3], nullptr, 10));
    long n = atol(argv[4]);
    FILE* out = fopen(argv[5], "wb");
    if (!out) { perror("open"); return 2; }
    for (long i = 0; i < n; ++i) {
      if (fn == "canon") {
        string in = RandomPath(r), problem;
        string o = Canon(in, &problem);
        fprintf(out, "{\"in\":%s,\"out\":%s,\"problem\":%s}\n", JBytes(in).c_str(), JBytes(o).c_str(), JEsc(problem).c_str());
      }
    }
    fclose(out);
    return 0;
  }
  fprintf(stderr, "usage: fn check <fn> <vectors> <mismatches> | fn gen <fn> <seed> <n> <out>\n");
  return 2;
}
