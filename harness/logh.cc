// logh: replays operation sequences on the real BuildLog / DepsLog classes with
// real files and records, after every operation, the bytes on disk and the
// meaning the class gives them (C08, C09).  Sequences come from TLC
// (spec/BuildLog.tla, spec/DepsLog.tla exports) or from the seeded random
// generators below.  Every session (load .. crash/close) runs in the same
// process, the log objects are recreated per session like a fresh ninja.
//
//   logh run  <kind: blog|dlog> <sequences.ndjson> <trace.ndjson>
//   logh gen  <kind> <seed> <n> <sequences.ndjson>      (random long histories)

#include <errno.h>
#include <fcntl.h>
#include <stdio.h>
#include <stdlib.h>
#include <string.h>
#include <sys/stat.h>
#include <sys/wait.h>
#include <unistd.h>

#include <map>
#include <memory>
#include <set>
#include <string>
#include <vector>

#include "build_log.h"
#include "deps_log.h"
#include "disk_interface.h"
#include "graph.h"
#include "manifest_parser.h"
#include "state.h"
#include "util.h"

#include "json.h"

using namespace std;

static string g_dir;
static FILE* g_out;

static string ReadAll(const string& p, bool* exists) {
  string s;
  FILE* f = fopen(p.c_str(), "rb");
  *exists = f != nullptr;
  if (!f) return s;
  char buf[65536];
  size_t n;
  while ((n = fread(buf, 1, sizeof buf, f)) > 0) s.append(buf, n);
  fclose(f);
  return s;
}
static string JBytes(const string& s) {
  string r = "[";
  for (size_t i = 0; i < s.size(); ++i) { if (i) r += ","; r += to_string((unsigned char)s[i]); }
  return r + "]";
}
static string Bytes(const JV& a) {
  if (a.t == JV::Str) return a.s;
  string s;
  for (auto& x : a.a) s.push_back((char)x.n);
  return s;
}

struct MemDisk : public DiskInterface {
  map<string, TimeStamp> mt;
  TimeStamp Stat(const string& path, string*) const override { auto i = mt.find(path); return i == mt.end() ? 0 : i->second; }
  bool MakeDir(const string&) override { return true; }
  bool WriteFile(const string&, const string&, bool) override { return true; }
  Status ReadFile(const string&, string*, string* err) override { *err = "no"; return NotFound; }
  int RemoveFile(const string&) override { return 0; }
};

struct DeadUser : public BuildLogUser {
  set<string> dead;
  bool IsPathDead(StringPiece s) const override { return dead.count(s.AsString()) > 0; }
};

// ---------------------------------------------------------------------------
// build log

struct BlogSession {
  unique_ptr<BuildLog> log;
  DeadUser user;
  string path;
  string Open(int* status) {
    log.reset(new BuildLog);
    string err;
    LoadStatus st = log->Load(path, &err);
    *status = (int)st;
    string warn = err;
    err.clear();
    if (st != LOAD_ERROR) {
      if (!log->OpenForWrite(path, user, &err)) warn += "|open: " + err;
    }
    return warn;
  }
  // the process dies: nothing is flushed or closed properly.  (FILE buffers of
  // the log are line buffered and flushed per record, so dropping the object
  // via Close() writes nothing new except creating an empty log with a header
  // when nothing was ever written; to stay faithful to a crash we leak it.)
  void Crash() { (void)log.release(); }
};

static string BlogEntries(const BuildLog& bl) {
  vector<string> rows;
  for (auto& e : bl.entries()) {
    char h[32];
    snprintf(h, sizeof h, "%llx", (unsigned long long)e.second->command_hash);
    rows.push_back("{\"o\":" + JBytes(e.second->output) + ",\"m\":" + to_string(e.second->mtime) + ",\"h\":" + JBytes(h) +
                   ",\"s\":" + to_string(e.second->start_time) + ",\"t\":" + to_string(e.second->end_time) + "}");
  }
  sort(rows.begin(), rows.end());
  string r = "[";
  for (size_t i = 0; i < rows.size(); ++i) { if (i) r += ","; r += rows[i]; }
  return r + "]";
}

static string HashOf(const string& cmd) {
  char h[32];
  snprintf(h, sizeof h, "%llx", (unsigned long long)BuildLog::LogEntry::HashCommand(cmd));
  return h;
}

static void RunBlog(const JV& seq, long idx) {
  BlogSession s;
  s.path = g_dir + "/.ninja_log";
  unlink(s.path.c_str());
  unlink((s.path + ".recompact").c_str());
  unlink((s.path + ".restat").c_str());
  int st;
  string warn = s.Open(&st);
  fprintf(g_out, "{\"e\":\"Reset\",\"kind\":\"blog\",\"id\":%ld}\n", idx);
  for (auto& op : seq["ops"].a) {
    string k = op["op"].str();
    string extra;
    warn.clear();
    st = 1;
    if (k == "rec") {
      // one statement with the given outputs and command text
      State state;
      Rule* rule = new Rule("r");
      EvalString cmd;
      cmd.AddText(op["cmd"].str());
      rule->AddBinding("command", cmd);
      state.bindings_.AddRule(unique_ptr<const Rule>(rule));
      Edge* e = state.AddEdge(rule);
      string err;
      vector<string> outs;
      for (auto& o : op["outs"].a) { outs.push_back(Bytes(o)); state.AddOut(e, outs.back(), 0, &err); }
      bool ok = s.log->RecordCommand(e, (int)op["s"].num(), (int)op["t"].num(), op["m"].num());
      string ol = "[";
      for (size_t i = 0; i < outs.size(); ++i) { if (i) ol += ","; ol += JBytes(outs[i]); }
      extra = ",\"outs\":" + ol + "],\"m\":" + to_string(op["m"].num()) + ",\"s\":" + to_string(op["s"].num()) + ",\"t\":" + to_string(op["t"].num()) +
              ",\"h\":" + JBytes(HashOf(op["cmd"].str())) + ",\"ok\":" + (ok ? "true" : "false");
    } else if (k == "reopen") {
      s.log->Close();
      warn = s.Open(&st);
    } else if (k == "tear") {
      s.Crash();
      bool ex;
      string cur = ReadAll(s.path, &ex);
      long cut = op["cut"].num();           // bytes removed from the end
      long n = (long)cur.size() - cut;
      if (n < 0) n = 0;
      if (ex) { int rc = truncate(s.path.c_str(), n); (void)rc; }
      extra = ",\"len\":" + to_string(n);
      warn = s.Open(&st);
    } else if (k == "recompact") {
      s.user.dead.clear();
      for (auto& d : op["dead"].a) s.user.dead.insert(Bytes(d));
      string err;
      bool ok = s.log->Recompact(s.path, s.user, &err);
      string dl = "[";
      bool first = true;
      for (auto& d : s.user.dead) { if (!first) dl += ","; first = false; dl += JBytes(d); }
      extra = ",\"dead\":" + dl + "],\"ok\":" + (ok ? "true" : "false");
      // like `ninja -t recompact`: the process ends, the next session loads again
      s.log->Close();
      warn = s.Open(&st);
    } else if (k == "restat") {
      MemDisk disk;
      vector<string> names;
      for (auto& o : op["outs"].a) names.push_back(Bytes(o));
      string mtl = "[";
      bool first = true;
      for (auto& p : op["mt"].a) {
        disk.mt[Bytes(p["o"])] = p["m"].num();
        if (!first) mtl += ",";
        first = false;
        mtl += "{\"o\":" + JBytes(Bytes(p["o"])) + ",\"m\":" + to_string(p["m"].num()) + "}";
      }
      vector<char*> argv;
      for (auto& n : names) argv.push_back(const_cast<char*>(n.c_str()));
      string err;
      bool ok = s.log->Restat(s.path, disk, (int)argv.size(), argv.data(), &err);
      string ol = "[";
      for (size_t i = 0; i < names.size(); ++i) { if (i) ol += ","; ol += JBytes(names[i]); }
      extra = ",\"outs\":" + ol + "],\"mt\":" + mtl + "],\"ok\":" + (ok ? "true" : "false");
      s.log->Close();
      warn = s.Open(&st);
    } else if (k == "version") {
      // the log on disk claims another version
      s.log->Close();
      bool ex;
      string cur = ReadAll(s.path, &ex);
      size_t nl = cur.find('\n');
      string rest = nl == string::npos ? "" : cur.substr(nl + 1);
      string hdr = "# ninja log v" + to_string(op["v"].num()) + "\n";
      FILE* f = fopen(s.path.c_str(), "wb");
      fwrite(hdr.data(), 1, hdr.size(), f);
      fwrite(rest.data(), 1, rest.size(), f);
      fclose(f);
      extra = ",\"v\":" + to_string(op["v"].num());
      warn = s.Open(&st);
    }
    bool ex;
    string bytes = ReadAll(s.path, &ex);
    fprintf(g_out, "{\"e\":\"LogOp\",\"op\":\"%s\"%s,\"exists\":%s,\"bytes\":%s,\"entries\":%s,\"status\":%d,\"warn\":%s}\n", k.c_str(), extra.c_str(),
            ex ? "true" : "false", JBytes(bytes).c_str(), BlogEntries(*s.log).c_str(), st, JEsc(warn).c_str());
  }
  s.log->Close();
}

// ---------------------------------------------------------------------------
// deps log

struct DlogSession {
  unique_ptr<DepsLog> log;
  unique_ptr<State> state;
  string path;
  set<string> live;   // outputs that have a build statement with deps
  string Open(int* status) {
    state.reset(new State);
    // live outputs get a statement with "deps = gcc"
    Rule* rule = new Rule("cc");
    EvalString cmd; cmd.AddText("cc");
    rule->AddBinding("command", cmd);
    EvalString d; d.AddText("gcc");
    rule->AddBinding("deps", d);
    state->bindings_.AddRule(unique_ptr<const Rule>(rule));
    // ... or a statement of a rule without it that binds "deps = gcc" itself (every other live output)
    Rule* plain = new Rule("cc0");
    plain->AddBinding("command", cmd);
    state->bindings_.AddRule(unique_ptr<const Rule>(plain));
    int k = 0;
    for (auto& o : live) {
      bool own = (k++ % 2) == 1;
      Edge* e = state->AddEdge(own ? plain : rule);
      if (own) {
        BindingEnv* env = new BindingEnv(&state->bindings_);   // lives as long as the state
        env->AddBinding("deps", "gcc");
        e->env_ = env;
      }
      string err;
      state->AddOut(e, o, 0, &err);
    }
    log.reset(new DepsLog);
    string err;
    LoadStatus st = log->Load(path, state.get(), &err);
    *status = (int)st;
    string warn = err;
    err.clear();
    if (st != LOAD_ERROR && !log->OpenForWrite(path, &err)) warn += "|open: " + err;
    return warn;
  }
  void Crash() { (void)log.release(); (void)state.release(); }
};

static string DlogTable(DepsLog& dl) {
  vector<string> rows;
  for (size_t id = 0; id < dl.deps().size(); ++id) {
    DepsLog::Deps* d = dl.deps()[id];
    if (!d) continue;
    string ins = "[";
    for (int i = 0; i < d->node_count; ++i) { if (i) ins += ","; ins += JBytes(d->nodes[i]->path()); }
    string m8 = "[";
    for (int k = 0; k < 8; ++k) { if (k) m8 += ","; m8 += to_string((int)(((uint64_t)d->mtime >> (8 * k)) & 0xff)); }
    rows.push_back("{\"o\":" + JBytes(dl.nodes()[id]->path()) + ",\"m\":" + m8 + "],\"d\":" + ins + "]}");
  }
  sort(rows.begin(), rows.end());
  string r = "[";
  for (size_t i = 0; i < rows.size(); ++i) { if (i) r += ","; r += rows[i]; }
  r += "]";
  string ids = "[";
  for (size_t i = 0; i < dl.nodes().size(); ++i) { if (i) ids += ","; ids += JBytes(dl.nodes()[i]->path()); }
  return r + ",\"ids\":" + ids + "]";
}

static void RunDlog(const JV& seq, long idx) {
  DlogSession s;
  s.path = g_dir + "/.ninja_deps";
  unlink(s.path.c_str());
  unlink((s.path + ".recompact").c_str());
  for (auto& l : seq["live"].a) s.live.insert(Bytes(l));
  int st;
  string warn = s.Open(&st);
  fprintf(g_out, "{\"e\":\"Reset\",\"kind\":\"dlog\",\"id\":%ld}\n", idx);
  fflush(g_out);
  for (auto& op : seq["ops"].a) {
    string k = op["op"].str();
    string extra;
    warn.clear();
    st = 1;
    if (k == "rec") {
      Node* out = s.state->GetNode(Bytes(op["o"]), 0);
      vector<Node*> ins;
      string il = "[";
      for (size_t i = 0; i < op["d"].a.size(); ++i) {
        ins.push_back(s.state->GetNode(Bytes(op["d"].a[i]), 0));
        if (i) il += ",";
        il += JBytes(Bytes(op["d"].a[i]));
      }
      bool ok = s.log->RecordDeps(out, op["m"].num(), ins);
      extra = ",\"o\":" + JBytes(Bytes(op["o"])) + ",\"m\":" + to_string(op["m"].num()) + ",\"d\":" + il + "],\"ok\":" + (ok ? "true" : "false");
    } else if (k == "reopen") {
      s.log->Close();
      warn = s.Open(&st);
    } else if (k == "tear" || k == "damage") {
      s.Crash();
      bool ex;
      string cur = ReadAll(s.path, &ex);
      long cut = op["cut"].num();
      long n = (long)cur.size() - cut;
      if (n < 0) n = 0;
      if (ex) { int rc = truncate(s.path.c_str(), n); (void)rc; }
      string tail = Bytes(op["tail"]);
      if (ex && !tail.empty()) {
        FILE* f = fopen(s.path.c_str(), "ab");
        fwrite(tail.data(), 1, tail.size(), f);
        fclose(f);
      }
      extra = ",\"len\":" + to_string(n) + ",\"tail\":" + JBytes(tail);
      warn = s.Open(&st);
    } else if (k == "recompact") {
      s.live.clear();
      for (auto& l : op["live"].a) s.live.insert(Bytes(l));
      // the manifest changed: a new process loads the log with the new graph, then recompacts
      s.log->Close();
      warn = s.Open(&st);
      string err;
      bool ok = s.log->Recompact(s.path, &err);
      string ll = "[";
      bool first = true;
      for (auto& l : s.live) { if (!first) ll += ","; first = false; ll += JBytes(l); }
      extra = ",\"live\":" + ll + "],\"ok\":" + (ok ? "true" : "false");
      s.log->Close();
      string w2 = s.Open(&st);
      warn += w2;
    }
    bool ex;
    string bytes = ReadAll(s.path, &ex);
    fprintf(g_out, "{\"e\":\"LogOp\",\"op\":\"%s\"%s,\"exists\":%s,\"bytes\":%s,\"table\":%s,\"status\":%d,\"warn\":%s}\n", k.c_str(), extra.c_str(),
            ex ? "true" : "false", JBytes(bytes).c_str(), DlogTable(*s.log).c_str(), st, JEsc(warn).c_str());
    fflush(g_out);
  }
  s.log->Close();
}

// ---------------------------------------------------------------------------
struct Rng {
  unsigned long long s;
  explicit Rng(unsigned long long seed) : s(seed * 6364136223846793005ULL + 1442695040888963407ULL) {}
  unsigned next() { s = s * 6364136223846793005ULL + 1442695040888963407ULL; return (unsigned)(s >> 33); }
  unsigned below(unsigned n) { return next() % n; }
};

static string JS(const string& s) { return JEsc(s); }

static void Gen(const string& kind, unsigned long long seed, long n, FILE* out) {
  Rng r(seed);
  for (long i = 0; i < n; ++i) {
    int len = 20 + r.below(120);
    // very long names too (records beyond 1 KiB), only in some histories to keep the traces small
    vector<string> names = {"a", "bb", "ccc", "dddd", "out/e.o", "f g", string(40 + r.below(200), 'x')};
    if (kind == "blog" && i % 4 == 0) names.push_back(string(990 + r.below(200), 'L'));
    string ops = "[";
    for (int k = 0; k < len; ++k) {
      if (k) ops += ",";
      unsigned c = r.below(100);
      if (kind == "blog") {
        if (c < 80) {
          int no = 1 + (r.below(6) == 0);
          string outs = "[";
          unsigned first = r.below(names.size());
          for (int q = 0; q < no; ++q) { if (q) outs += ","; outs += JS(names[(first + q * (1 + r.below(names.size() - 1))) % names.size()]); }
          ops += "{\"op\":\"rec\",\"outs\":" + outs + "],\"cmd\":\"cmd" + to_string(r.below(3)) + "\",\"m\":" + to_string(1 + r.below(50)) +
                 ",\"s\":" + to_string(r.below(90)) + ",\"t\":" + to_string(100 + r.below(90)) + "}";
        } else if (c < 88) ops += "{\"op\":\"reopen\"}";
        else if (c < 95) ops += "{\"op\":\"tear\",\"cut\":" + to_string(r.below(40)) + "}";
        else if (c < 97) ops += "{\"op\":\"recompact\",\"dead\":[" + JS(names[r.below(names.size())]) + "]}";
        else ops += "{\"op\":\"restat\",\"outs\":[" + JS(names[r.below(names.size())]) + "],\"mt\":[{\"o\":" + JS(names[r.below(names.size())]) + ",\"m\":" + to_string(60 + r.below(9)) + "}]}";
      } else {
        if (c < 75) {
          int nd = r.below(4);
          string d = "[";
          for (int q = 0; q < nd; ++q) { if (q) d += ","; d += JS("h" + to_string(r.below(8)) + string(r.below(4), 'y')); }
          ops += "{\"op\":\"rec\",\"o\":" + JS(names[r.below(names.size())]) + ",\"m\":" + to_string(1 + r.below(50)) + ",\"d\":" + d + "]}";
        } else if (c < 85) ops += "{\"op\":\"reopen\"}";
        else if (c < 95) ops += "{\"op\":\"tear\",\"cut\":" + to_string(r.below(30)) + ",\"tail\":[]}";
        else {
          string live = "[";
          bool first = true;
          for (auto& nm : names) if (r.below(3)) { if (!first) live += ","; first = false; live += JS(nm); }
          ops += "{\"op\":\"recompact\",\"live\":" + live + "]}";
        }
      }
    }
    string live = "[";
    for (size_t q = 0; q < names.size(); ++q) { if (q) live += ","; live += JS(names[q]); }
    fprintf(out, "{\"live\":%s],\"ops\":%s]}\n", live.c_str(), ops.c_str());
  }
}

int main(int argc, char** argv) {
  if (argc >= 5 && !strcmp(argv[1], "run")) {
    string kind = argv[2];
    char tmpl[] = "/dev/shm/logh-XXXXXX";
    if (!mkdtemp(tmpl)) { perror("mkdtemp"); return 2; }
    g_dir = tmpl;
    FILE* f = fopen(argv[3], "rb");
    g_out = fopen(argv[4], "wb");
    if (!f || !g_out) { perror("open"); return 2; }
    char* lbuf = nullptr; size_t cap = 0; ssize_t ll;
    long idx = 0;
    while ((ll = getline(&lbuf, &cap, f)) > 0) {
      string line(lbuf, ll);
      if (line.size() < 3) continue;
      bool ok;
      JV j = JParse(line, &ok);
      if (!ok) { fprintf(stderr, "bad line\n"); return 2; }
      // every sequence runs in a child: a crash of the log class is an observation, not the end of the run
      fflush(g_out);
      pid_t pid = fork();
      if (pid == 0) {
        alarm(30);
        if (kind == "blog") RunBlog(j, idx); else RunDlog(j, idx);
        fflush(g_out);
        _exit(0);
      }
      int st = 0;
      while (waitpid(pid, &st, 0) < 0 && errno == EINTR) {}
      if (!(WIFEXITED(st) && WEXITSTATUS(st) == 0)) {
        fseek(g_out, 0, SEEK_END);
        fprintf(g_out, "\n{\"e\":\"Crashed\",\"id\":%ld,\"status\":%d,\"signal\":%d}\n", idx, st, WIFSIGNALED(st) ? WTERMSIG(st) : 0);
      }
      ++idx;
    }
    fclose(g_out);
    string cmd = "rm -rf " + g_dir;
    int rc = system(cmd.c_str()); (void)rc;
    fprintf(stderr, "logh: sequences=%ld\n", idx);
    return 0;
  }
  if (argc >= 6 && !strcmp(argv[1], "gen")) {
    FILE* out = fopen(argv[5], "wb");
    if (!out) { perror("open"); return 2; }
    Gen(argv[2], strtoull(argv[3], nullptr, 10), atol(argv[4]), out);
    fclose(out);
    return 0;
  }
  fprintf(stderr, "usage: logh run <blog|dlog> <seqs> <trace> | logh gen <kind> <seed> <n> <out>\n");
  return 2;
}
