// c13: feeds the bounded input spaces of spec/Fuzz.tla (every concatenation of at most N tokens of a format's
// alphabet) and seeded mutations of longer valid inputs to the real parsers and loaders, built with
// AddressSanitizer + UndefinedBehaviorSanitizer.  Inputs are processed in forked workers; an input on which the
// worker dies (signal, sanitizer report, uncaught exception) or exceeds the watchdog is reported; Fatal()/exit(1)
// counts as "reported an error".
//
//   c13 enum   <format> <alphabets.json> <maxlen> <nproc> <report.ndjson>
//   c13 mutate <format> <seeds.ndjson>   <seed> <n> <nproc> <report.ndjson>

#include <errno.h>
#include <signal.h>
#include <stdio.h>
#include <stdlib.h>
#include <string.h>
#include <sys/mman.h>
#include <sys/stat.h>
#include <sys/wait.h>
#include <unistd.h>

#include <exception>
#include <map>
#include <string>
#include <vector>

#include "build_log.h"
#include "clparser.h"
#include "depfile_parser.h"
#include "deps_log.h"
#include "disk_interface.h"
#include "dyndep.h"
#include "dyndep_parser.h"
#include "elide_middle.h"
#include "graph.h"
#include "jobserver.h"
#include "manifest_parser.h"
#include "state.h"
#include "status_printer.h"
#include "build.h"

#include "json.h"

using namespace std;

struct MemReader : public FileReader {
  map<string, string> files;
  Status ReadFile(const string& path, string* contents, string* err) override {
    auto i = files.find(path);
    if (i == files.end()) { *err = "not found"; return NotFound; }
    *contents = i->second;
    return Okay;
  }
};

// an in-memory disk for the loaders that go through DiskInterface
struct MemDisk : public DiskInterface {
  map<string, string> files;
  TimeStamp Stat(const string& path, string* err) const override { return files.count(path) ? 1 : 0; }
  bool WriteFile(const string& path, const string& contents, bool) override { files[path] = contents; return true; }
  bool MakeDir(const string&) override { return true; }
  Status ReadFile(const string& path, string* contents, string* err) override {
    auto i = files.find(path);
    if (i == files.end()) { *err = "not found"; return NotFound; }
    *contents = i->second;
    return Okay;
  }
  int RemoveFile(const string& path) override { return files.erase(path) ? 0 : 1; }
};

static string g_tmp;

// what every tool and the builder do with a loaded manifest: expand the bindings of each statement
static void EvaluateAll(State& st) {
  for (Edge* e : st.edges_) {
    e->EvaluateCommand(true);
    e->GetBinding("description");
    e->GetBinding("deps");
    e->GetUnescapedDepfile();
    e->GetUnescapedDyndep();
    e->GetUnescapedRspfile();
    e->GetBindingBool("restat");
  }
}

// NUL-terminated copy in a heap block of exactly size()+1 bytes (ASan red zone right behind the terminator)
struct ExactCStr {
  char* p;
  explicit ExactCStr(const string& s) : p((char*)malloc(s.size() + 1)) { memcpy(p, s.data(), s.size()); p[s.size()] = 0; }
  ~ExactCStr() { free(p); }
};

static void RunOne(const string& mode, const string& in) {
  if (mode == "manifest") {
    State st;
    MemReader r;
    r.files["build.ninja"] = in;
    r.files["inc"] = "x = 1\nrule ri\n  command = c\n";
    ManifestParser p(&st, &r);
    string err;
    if (p.Load("build.ninja", &err)) EvaluateAll(st);
  } else if (mode == "rulevars") {
    // the token string fills the values of three rule bindings, separated by the token "|"
    vector<string> part(1);
    for (char ch : in) { if (ch == '|') part.push_back(""); else part.back().push_back(ch); }
    part.resize(3);
    State st;
    MemReader r;
    r.files["build.ninja"] = "x = 1\nrule r\n  command = " + part[0] + "\n  rspfile = f\n  rspfile_content = " + part[1] + "\n  description = " + part[2] +
                             "\nbuild a: r b\n  y = 2\n";
    ManifestParser p(&st, &r);
    string err;
    if (p.Load("build.ninja", &err)) EvaluateAll(st);
  } else if (mode == "dyndep") {
    State st;
    MemReader r0;
    ManifestParser mp(&st, &r0);
    string e;
    mp.ParseTest("rule r\n  command = c\nbuild out: r in || dd\n  dyndep = dd\nbuild o2: r in || dd\n  dyndep = dd\n", &e);
    MemReader r;
    r.files["dd"] = in;
    DyndepFile ddf;
    DyndepParser p(&st, &r, &ddf);
    string err;
    p.Load("dd", &err);
    // and as the graph meets it: parsed and applied to the statements that name it
    MemDisk disk;
    disk.files["dd"] = in;
    DyndepLoader loader(&st, &disk, nullptr);
    string err2;
    if (Node* n = st.LookupNode("dd")) loader.LoadDyndeps(n, &err2);
  } else if (mode == "depfile") {
    string c = in;
    string err;
    DepfileParser p;
    p.Parse(&c, &err);
  } else if (mode == "depload") {
    // the depfile as the graph loader meets it: a statement with depfile= (no deps=) whose depfile is on disk at scan time
    State st;
    MemReader r0;
    ManifestParser mp(&st, &r0);
    string e;
    mp.ParseTest("rule r\n  command = c\n  depfile = $out.d\nbuild a: r in\n", &e);
    MemDisk disk;
    disk.files["in"] = "x";
    disk.files["a"] = "y";
    disk.files["a.d"] = in;
    static DepfileParserOptions dopts;
    DependencyScan scan(&st, nullptr, nullptr, &disk, &dopts, nullptr);
    string err;
    scan.RecomputeDirty(st.LookupNode("a"), nullptr, &err);
  } else if (mode == "readfile") {
    // the real reader on special files: it must return (content or error), never spin
    bool viainc = in.compare(0, 4, "inc:") == 0;
    string kind = viainc ? in.substr(4) : in;
    string p = g_tmp + "/rf";
    unlink(p.c_str()); rmdir(p.c_str());
    if (kind.compare(0, 3, "dir") == 0) mkdir(p.c_str(), 0700);
    else if (kind.compare(0, 5, "empty") == 0) { FILE* f = fopen(p.c_str(), "wb"); fclose(f); }
    else if (kind.compare(0, 5, "small") == 0) { FILE* f = fopen(p.c_str(), "wb"); fputs("x = 1\n", f); fclose(f); }
    else if (kind.compare(0, 3, "blk") == 0) { FILE* f = fopen(p.c_str(), "wb"); string big(65536, '#'); big += "\nx = 1\n"; fwrite(big.data(), 1, big.size(), f); fclose(f); }
    RealDiskInterface rd;
    if (!viainc) {
      string c, err;
      rd.ReadFile(p, &c, &err);
    } else {
      string m = g_tmp + "/rf.ninja";
      FILE* f = fopen(m.c_str(), "wb");
      fprintf(f, "include %s\nsubninja %s\n", p.c_str(), p.c_str());
      fclose(f);
      State st;
      ManifestParser parser(&st, &rd);
      string err;
      parser.Load(m, &err);
    }
  } else if (mode == "cl") {
    CLParser p;
    string out, err;
    p.Parse(in, "", &out, &err);
  } else if (mode == "makeflags") {
    Jobserver::Config c;
    string err;
    string mf = in;
    for (auto& ch : mf) if (ch == 0) ch = ' ';
    ExactCStr z(mf);
    Jobserver::ParseMakeFlagsValue(z.p, &c, &err);
    Jobserver::Config c2;
    Jobserver::ParseNativeMakeFlagsValue(z.p, &c2, &err);
  } else if (mode == "status") {
    BuildConfig config;
    config.verbosity = BuildConfig::QUIET;
    StatusPrinter sp(config);
    string fmt = in;
    for (auto& ch : fmt) if (ch == 0) ch = ' ';
    {
      // an exactly sized heap copy: a read behind the terminating NUL is a sanitizer report, not a lucky hit in
      // std::string's spare capacity (the real format comes from getenv())
      ExactCStr z(fmt);
      sp.FormatProgressStatus(z.p, 1234);
    }
    string el = in;
    ElideMiddleInPlace(el, 8);
    string el2 = in + in + in;
    ElideMiddleInPlace(el2, 3);
  } else if (mode == "buildlog") {
    string p = g_tmp + "/bl";
    FILE* f = fopen(p.c_str(), "wb");
    fwrite(in.data(), 1, in.size(), f);
    fclose(f);
    BuildLog l;
    string err;
    if (l.Load(p, &err) != LOAD_ERROR) {
      // what ninja does next with a loaded log: look entries up, restat them, recompact, append
      struct NoDead : public BuildLogUser { bool IsPathDead(StringPiece) const override { return false; } } user;
      for (auto& e : l.entries()) l.LookupByOutput(e.first.AsString());
      MemDisk disk;
      disk.files["a"] = "x";
      string e2;
      l.Restat(p, disk, 0, nullptr, &e2);
      BuildLog l2;
      if (l2.Load(p, &e2) != LOAD_ERROR) {
        l2.Recompact(p, user, &e2);
        if (l2.OpenForWrite(p, user, &e2)) l2.Close();
      }
    }
  } else if (mode == "depslog") {
    string full = string("# ninjadeps\n") + string("\x04\0\0\0", 4) + in;
    string p = g_tmp + "/dl";
    FILE* f = fopen(p.c_str(), "wb");
    fwrite(full.data(), 1, full.size(), f);
    fclose(f);
    State st;
    DepsLog l;
    string err;
    if (l.Load(p, &st, &err) != LOAD_ERROR) {
      // what ninja does next with a loaded log: query it and recompact it
      for (Node* n : l.nodes()) { if (n) l.GetDeps(n); }
      string e2;
      l.Recompact(p, &e2);
    }
  }
}

struct Shared { volatile long cur; volatile long done; };

static vector<string> g_tokens;
static vector<string> g_inputs;   // mutate mode
static int g_maxlen;

static string InputOf(long idx) {
  if (!g_inputs.empty()) return g_inputs[idx];
  // idx enumerates all token strings of length 0..maxlen in length-lexicographic order
  long A = (long)g_tokens.size();
  long base = 0, count = 1;
  int len = 0;
  while (idx >= base + count) { base += count; count *= A; ++len; }
  long k = idx - base;
  vector<int> d(len);
  for (int i = len - 1; i >= 0; --i) { d[i] = (int)(k % A); k /= A; }
  string s;
  for (int i : d) s += g_tokens[i];
  return s;
}

static long Total() {
  if (!g_inputs.empty()) return (long)g_inputs.size();
  long A = (long)g_tokens.size(), t = 0, c = 1;
  for (int l = 0; l <= g_maxlen; ++l) { t += c; c *= A; }
  return t;
}

static string JBytes(const string& s) {
  string r = "[";
  for (size_t i = 0; i < s.size(); ++i) { if (i) r += ","; r += to_string((unsigned char)s[i]); }
  return r + "]";
}

static void OnAlarm(int) { _exit(113); }

int main(int argc, char** argv) {
  if (argc < 7) { fprintf(stderr, "usage\n"); return 2; }
  string cmd = argv[1], mode = argv[2];
  int nproc;
  string report;
  if (cmd == "enum") {
    FILE* f = fopen(argv[3], "rb");
    if (!f) { perror("alphabets"); return 2; }
    string all;
    char buf[65536];
    size_t n;
    while ((n = fread(buf, 1, sizeof buf, f)) > 0) all.append(buf, n);
    fclose(f);
    JV j = JParse(all);
    for (auto& t : j[mode.c_str()]["tokens"].a) {
      if (t.t == JV::Str) g_tokens.push_back(t.s);
      else { string s; for (auto& b : t.a) s.push_back((char)b.n); g_tokens.push_back(s); }
    }
    g_maxlen = atoi(argv[4]);
    nproc = atoi(argv[5]);
    report = argv[6];
  } else {
    // mutate: seeds are {"in":[bytes]} lines
    FILE* f = fopen(argv[3], "rb");
    if (!f) { perror("seeds"); return 2; }
    vector<string> seeds;
    char* lbuf = nullptr; size_t cap = 0; ssize_t ll;
    while ((ll = getline(&lbuf, &cap, f)) > 0) {
      JV j = JParse(string(lbuf, ll));
      string s;
      if (j["in"].t == JV::Str) s = j["in"].s; else for (auto& b : j["in"].a) s.push_back((char)b.n);
      seeds.push_back(s);
    }
    fclose(f);
    unsigned long long st = strtoull(argv[4], nullptr, 10) * 6364136223846793005ULL + 1442695040888963407ULL;
    auto rnd = [&](unsigned m) { st = st * 6364136223846793005ULL + 1442695040888963407ULL; return (unsigned)((st >> 33) % m); };
    long n = atol(argv[5]);
    for (long i = 0; i < n && !seeds.empty(); ++i) {
      string s = seeds[rnd((unsigned)seeds.size())];
      int edits = 1 + rnd(3);
      for (int e = 0; e < edits; ++e) {
        unsigned op = rnd(5);
        size_t pos = s.empty() ? 0 : rnd((unsigned)s.size());
        if (op == 0 && !s.empty()) s[pos] = (char)rnd(256);
        else if (op == 1) s.insert(pos, 1, (char)rnd(256));
        else if (op == 2 && !s.empty()) s.erase(pos, 1 + rnd(4));
        else if (op == 3) s = s.substr(0, pos);
        else if (!s.empty()) { string other = seeds[rnd((unsigned)seeds.size())]; s = s.substr(0, pos) + other.substr(other.size() / 2); }
      }
      g_inputs.push_back(s);
    }
    nproc = atoi(argv[6]);
    report = argc > 7 ? argv[7] : "report.ndjson";
  }
  char tmpl[] = "/dev/shm/c13-XXXXXX";
  if (!mkdtemp(tmpl)) { perror("mkdtemp"); return 2; }
  g_tmp = tmpl;
  long total = Total();
  FILE* rep = fopen(report.c_str(), "wb");
  Shared* sh = (Shared*)mmap(nullptr, sizeof(Shared) * nproc, PROT_READ | PROT_WRITE, MAP_SHARED | MAP_ANONYMOUS, -1, 0);
  long errexits = 0, bad = 0;
  // static partition: worker w handles indices w, w+nproc, ...
  vector<pid_t> pids(nproc, 0);
  vector<long> next(nproc);
  for (int w = 0; w < nproc; ++w) next[w] = w;
  int live = 0;
  auto spawn = [&](int w) {
    if (next[w] >= total) return;
    pid_t pid = fork();
    if (pid == 0) {
      signal(SIGALRM, OnAlarm);
      if (getenv("C13_QUIET")) { FILE* nf = freopen("/dev/null", "w", stderr); (void)nf; }
      std::set_terminate([] { _exit(114); });
      string sub = g_tmp + "/w" + to_string(w);
      mkdir(sub.c_str(), 0700);
      g_tmp = sub;
      for (long i = next[w]; i < total; i += nproc) {
        sh[w].cur = i;
        alarm(20);
        RunOne(mode, InputOf(i));
        alarm(0);
        sh[w].done = sh[w].done + 1;
      }
      sh[w].cur = -1;
      _exit(0);
    }
    pids[w] = pid;
    ++live;
  };
  for (int w = 0; w < nproc; ++w) spawn(w);
  while (live > 0) {
    int st = 0;
    pid_t p = wait(&st);
    if (p < 0) { if (errno == EINTR) continue; break; }
    int w = -1;
    for (int k = 0; k < nproc; ++k) if (pids[k] == p) w = k;
    if (w < 0) continue;
    --live;
    long cur = sh[w].cur;
    if (cur < 0) continue;           // finished its share
    // died or exited while processing input `cur`
    bool exited1 = WIFEXITED(st) && WEXITSTATUS(st) == 1;   // Fatal(): ninja reported an error
    if (exited1) {
      ++errexits;
    } else {
      ++bad;
      string in = InputOf(cur);
      const char* kind = WIFSIGNALED(st) ? "signal" : (WEXITSTATUS(st) == 113 ? "hang" : WEXITSTATUS(st) == 114 ? "uncaught-exception" : WEXITSTATUS(st) == 77 ? "sanitizer" : "exit");
      fprintf(rep, "{\"mode\":\"%s\",\"kind\":\"%s\",\"status\":%d,\"index\":%ld,\"in\":%s}\n", mode.c_str(), kind, WIFSIGNALED(st) ? WTERMSIG(st) : WEXITSTATUS(st), cur, JBytes(in).c_str());
      fflush(rep);
    }
    next[w] = cur + nproc;
    spawn(w);
  }
  fclose(rep);
  long done = 0;
  for (int w = 0; w < nproc; ++w) done += sh[w].done;
  string rm = "rm -rf " + string(tmpl);
  int rc = system(rm.c_str()); (void)rc;
  fprintf(stderr, "c13 %s: inputs=%ld processed=%ld error_exits=%ld reports=%ld\n", mode.c_str(), total, done + errexits, errexits, bad);
  return 0;
}
