// verif_cmd: the build command of the real-binary harness (H2).
//
//   verif_cmd <ctl-dir> <edge-id>
//
// Announces itself on the control FIFO <ctl-dir>/req ("S <edge-id> <pid>\n"),
// then waits for its script <ctl-dir>/go.<edge-id> to appear (the driver
// creates it, as a FIFO message would, when it decides that this command
// completes next) and executes it line by line:
//   w <path> <srcfile>   replace <path> atomically with the bytes of <srcfile>
//   o <srcfile>          write the bytes of <srcfile> to stdout
//   e <srcfile>          ... to stderr
//   p <milliseconds>     pause
//   x <code>             exit with that status
// The command itself never decides anything; ordering comes from the driver.

#include <errno.h>
#include <fcntl.h>
#include <signal.h>
#include <stdio.h>
#include <stdlib.h>
#include <string.h>
#include <sys/stat.h>
#include <time.h>
#include <unistd.h>

#include <string>

static std::string Slurp(const std::string& p) {
  std::string s;
  FILE* f = fopen(p.c_str(), "rb");
  if (!f) return s;
  char buf[65536];
  size_t n;
  while ((n = fread(buf, 1, sizeof buf, f)) > 0) s.append(buf, n);
  fclose(f);
  return s;
}

static void WriteAll(int fd, const std::string& s) {
  const char* p = s.data();
  size_t n = s.size();
  while (n) {
    ssize_t w = write(fd, p, n);
    if (w < 0) { if (errno == EINTR) continue; return; }
    p += w; n -= w;
  }
}

// --trap <ms> <out>...: on SIGINT/SIGTERM/SIGHUP wait <ms>, then write a partial result into every output
// and exit (a tool that flushes what it has while handling the signal).
static int g_trap_ms = -1;
static int g_trap_n = 0;
static char** g_trap_outs = nullptr;
static const char kPartial[] = "{\"k\":\"partial\",\"v\":\"trap\",\"ins\":[]}";
static void OnSignal(int) {
  struct timespec ts = {g_trap_ms / 1000, (g_trap_ms % 1000) * 1000000L};
  nanosleep(&ts, nullptr);
  for (int i = 0; i < g_trap_n; ++i) {
    int fd = open(g_trap_outs[i], O_WRONLY | O_CREAT | O_TRUNC, 0644);
    if (fd >= 0) { ssize_t w = write(fd, kPartial, sizeof(kPartial) - 1); (void)w; close(fd); }
  }
  _exit(130);
}

int main(int argc, char** argv) {
  if (argc < 3) return 97;
  std::string ctl = argv[1], id = argv[2];
  for (int i = 3; i < argc; ++i) {
    if (!strcmp(argv[i], "--trap") && i + 1 < argc) {
      g_trap_ms = atoi(argv[i + 1]);
      g_trap_outs = argv + i + 2;
      g_trap_n = argc - (i + 2);
      signal(SIGINT, OnSignal);
      signal(SIGTERM, OnSignal);
      signal(SIGHUP, OnSignal);
      break;
    }
  }
  {
    std::string msg = "S " + id + " " + std::to_string((long)getpid()) + "\n";
    int fd = open((ctl + "/req").c_str(), O_WRONLY);
    if (fd < 0) return 98;
    WriteAll(fd, msg);
    close(fd);
  }
  // wait for the script: a FIFO the driver writes the whole script into
  std::string gof = ctl + "/go." + id;
  std::string script;
  {
    int fd = open(gof.c_str(), O_RDONLY);   // blocks until the driver opens it for writing
    if (fd < 0) return 99;
    char buf[65536];
    ssize_t n;
    while ((n = read(fd, buf, sizeof buf)) > 0) script.append(buf, n);
    close(fd);
  }
  size_t pos = 0;
  while (pos < script.size()) {
    size_t nl = script.find('\n', pos);
    if (nl == std::string::npos) nl = script.size();
    std::string line = script.substr(pos, nl - pos);
    pos = nl + 1;
    if (line.size() < 2) continue;
    char op = line[0];
    std::string rest = line.substr(2);
    if (op == 'w') {
      size_t sp = rest.find(' ');
      std::string path = rest.substr(0, sp), src = rest.substr(sp + 1);
      std::string tmp = path + ".tmp~";
      std::string data = Slurp(src);
      int fd = open(tmp.c_str(), O_WRONLY | O_CREAT | O_TRUNC, 0644);
      if (fd >= 0) {
        WriteAll(fd, data);
        close(fd);
        rename(tmp.c_str(), path.c_str());
        struct stat st;
        stat(path.c_str(), &st);   // reading the time stamp back makes the next write get a later, distinct one
      }
    } else if (op == 'o') {
      WriteAll(1, Slurp(rest));
    } else if (op == 'e') {
      WriteAll(2, Slurp(rest));
    } else if (op == 'p') {
      long ms = atol(rest.c_str());
      struct timespec ts = {ms / 1000, (ms % 1000) * 1000000L};
      nanosleep(&ts, nullptr);
    } else if (op == 'x') {
      return atoi(rest.c_str());
    }
  }
  return 0;
}
